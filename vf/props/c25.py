"""C25 The published data store reflects the task pool; a delta replica
matches the scheduler's store."""
from __future__ import annotations

import json

from hypothesis import strategies as st

from vf.core import CaseResult, Ctx, Violation, hyp_run
from vf.gen.wfspec import wfspecs
from vf.sim.c27_util import (
    RSCase, crash_violations, dev_dump, edits, harness_spin)
from vf.sim.drive import outcome_maps, run_async

PROP_ID = 'C25'
LEVEL = 'exploration'
BUDGET = {'quick': 260, 'thorough': 6000}
MANIFEST = {
    'engine': 'S',
    'technique': 'stateful PBT: hook after every Scheduler.'
                 'update_data_structure; pool vs PbTaskProxy field compare; '
                 'client replica fed with every published delta batch '
                 '(serialise/parse round trip, library apply_delta) compared '
                 'element-wise with the scheduler store + checksum recompute',
    'level_note': 'the ZMQ publisher thread is stubbed: delta content and '
                  'order are checked, socket delivery is not',
}
RULE = (
    'Generated workflow (C01 domain + retries, optional runahead limit and '
    'limited default queue) + outcomes, 1-3 cumulative definition edits (C27 '
    'edit kinds) and a history of <= 50 steps over loop / fair round / return '
    '/ advance / deliver, commands hold, release, trigger (also in a new '
    'flow), set, remove, pause, resume, reload of an edited or unchanged '
    'definition, and set_graph_window_extent(0..3); then <= 25 rounds of the '
    'fair schedule.  '
    'After every Scheduler.update_data_structure made inside a main-loop '
    'iteration: each pooled task has a PbTaskProxy in the store with equal '
    'state, is_held, is_queued, is_runahead, flow numbers, set of completed '
    'output labels and per-prerequisite atom satisfaction.  A client replica '
    'starts empty, receives every batch the scheduler put on the publish '
    'queue from the first (the full snapshot) on, in order, each per-topic '
    'message after a SerializeToString/FromString round trip, applies them '
    'in published order with '
    'cylc.flow.data_store_mgr.apply_delta (clearing a topic first when its '
    'delta is flagged `reloaded`, as the UI server does); after every '
    'update_data_structure at which nothing is pending publication the replica '
    'equals the scheduler store element by element for all seven topics, and '
    'for every applied delta that carries a checksum the checksum recomputed '
    'over the replica (generate_checksum over stamps / edge ids) equals it.  '
    'Non-trivial = >= 20 published batches with >= 1 pruned element and >= 1 '
    'command; distinct by the whole case.')
ASSUMPTIONS = [
    'The client is the one the statement describes: it applies the '
    'per-topic delta messages of every published batch in the order the '
    'scheduler put them into the batch (which is the order the scheduler '
    'applies them itself) with the library\'s apply_delta, clears a topic '
    'when its delta says `reloaded`, and compares generate_checksum() of its '
    'own elements with the delta\'s checksum.  The order of topics inside '
    'one batch is not fixed by the statement; a client that walks the '
    'combined AllDeltas message in field-number order (task_proxies before '
    'edges, as the UI server does) ends up with different dangling edge ids '
    'when an edge is added and pruned in one batch - observed, not judged.',
    'Pool-vs-store is compared only after update_data_structure calls made '
    'inside a main-loop iteration (the granularity the statement names); the '
    'calls made inside the reload command only feed the replica.',
    'Replica-vs-store is compared only when DataStoreMgr.publish_pending is '
    'False, i.e. the scheduler has published everything it applied.',
    'Completed outputs are compared as sets of output labels; prerequisite '
    'satisfaction as the multiset of (upstream id, output message, satisfied) '
    'per prerequisite plus each prerequisite\'s overall satisfied flag.',
    'set_graph_window_extent is issued as the resolver does '
    '(DataStoreMgr.set_graph_window_extent(n), n >= 0); the resolver / '
    'GraphQL layer itself is not exercised.',
    'The ZMQ publisher is stubbed (engine S): only content and order of the '
    'published batches are checked.',
    'A run that the engine aborts because the scheduler waits for ever '
    'inside one call (seen: a reload waiting for a task left `preparing` '
    'by the trigger-then-reload defect described in '
    'findings/C25_triggered_task_reprepared_from_stale_proxy_after_reload.py) '
    'is counted inconclusive and not judged.',
]

CMD_OPS = ['hold', 'release', 'trigger', 'set', 'remove', 'pause', 'resume',
           'stop-point']
TAIL_ROUNDS = 25
TOPICS = ['edges', 'families', 'family_proxies', 'jobs', 'tasks',
          'task_proxies']


@st.composite
def cases(draw):
    spec = draw(wfspecs({'max_tasks': 5, 'max_fcp': 4, 'retries': True}))
    k = draw(st.integers(0, 5))
    if k <= 1:
        spec['extra']['runahead'] = 'P%d' % draw(st.integers(0, 2))
    if k in (1, 2, 3):
        spec['extra']['queues'] = [
            {'name': 'default', 'limit': draw(st.integers(1, 2))}]
    outcomes = draw(outcome_maps(spec, max_subs=2))
    reloads = []
    cur = spec
    for _ in range(draw(st.integers(1, 3))):
        e = draw(edits(cur))
        reloads.append(e)
        cur = e['spec']
    ops = (['loop'] * 3 + ['round'] * 6 + ['ret', 'adv', 'adv', 'del', 'del']
           + CMD_OPS + ['trigger-new'] + ['window'] * 3
           + ['reload-edit'] * 3 + ['reload'])

    def mk(t):
        op, n = t
        if op == 'trigger-new':
            return ['trigger', n, ['new']]
        return [op, n]

    # warm-up rounds of the fair schedule (tasks get to run, finish, be
    # pruned) followed by a random history
    warm = draw(st.integers(1, 8))
    sched = [['round', 0] for _ in range(warm)] + draw(st.lists(
        st.tuples(st.sampled_from(ops), st.integers(0, 15)).map(mk),
        min_size=6, max_size=45))
    return {'spec': spec, 'outcomes': outcomes, 'reloads': reloads,
            'schedule': sched}


def check_case(case, ctx: Ctx) -> CaseResult:
    res = run_async(_check(case, ctx))
    dev_dump('C25', case, res)
    return res


# ---------------------------------------------------------------------------

def first_diff_field(a, b) -> str:
    """Name of the first protobuf field on which two messages differ."""
    for fd in a.DESCRIPTOR.fields:
        if getattr(a, fd.name) != getattr(b, fd.name):
            return fd.name
        if fd.has_presence and a.HasField(fd.name) != b.HasField(fd.name):
            return fd.name + ':presence'
    return '?'


def dedupe_lists(el) -> None:
    """Remove duplicate entries (keeping first occurrences) from every
    repeated scalar field of a protobuf element, in place."""
    for fd in el.DESCRIPTOR.fields:
        v = getattr(el, fd.name)
        if type(v).__name__.startswith('RepeatedScalar') and len(v) > 1:
            uniq = list(dict.fromkeys(v))
            if len(uniq) != len(v):
                del v[:]
                v.extend(uniq)


class StoreMonitor:
    """Client replica + pool/store comparison for one scheduler incarnation."""

    def __init__(self, sim):
        from copy import deepcopy
        from cylc.flow.data_store_mgr import DATA_TEMPLATE
        self.sim = sim
        self.schd = sim.schd
        self.dsm = self.schd.data_store_mgr
        self.replica = deepcopy(DATA_TEMPLATE)
        # classification aid: a second client that removes duplicate
        # entries from its id-list fields after every batch
        self.dedup = deepcopy(DATA_TEMPLATE)
        self.n_applied = 0          # published batches applied so far
        self.viol = []
        self.stats = {'batches': 0, 'pruned': 0, 'pool_checks': 0,
                      'replica_checks': 0, 'checksum_checks': 0,
                      'tasks_compared': 0, 'reloaded_batches': 0,
                      'window_resizes': 0, 'atoms_compared': 0,
                      'republished': 0}
        self.first_is_snapshot = None
        self.harness_error = None
        self.stale_ids = set()
        self.old_orphan = None     # callable(name) -> bool, set by _check
        # per topic: ids published in `added` and `updated` of one batch
        self.dual = {}

    # -- hook ----------------------------------------------------------------
    def attach(self):
        schd = self.schd
        orig = schd.update_data_structure
        mon = self

        async def update_data_structure(*a, **k):
            r = await orig(*a, **k)
            mon.after_update()
            return r

        schd.update_data_structure = update_data_structure

        # root-cause tagging: a delta created from a TaskProxy object that is
        # no longer the pooled object of that identity (e.g. the pre-reload
        # proxy still referenced by a scheduler-side list)
        dsm = self.dsm
        pool = schd.pool

        def wrap(name):
            orig_fn = getattr(dsm, name)

            def fn(itask, *a, **k):
                try:
                    cur = pool._get_task_by_id(itask.identity)
                    if cur is not None and cur is not itask:
                        mon.stale_ids.add(itask.identity)
                except Exception:     # noqa: BLE001 (observation only)
                    pass
                return orig_fn(itask, *a, **k)

            setattr(dsm, name, fn)

        for name in ('delta_task_state', 'delta_task_outputs',
                     'delta_task_output', 'delta_task_prerequisite',
                     'delta_task_flow_nums', 'delta_from_task_proxy'):
            wrap(name)

    def add(self, sig, detail):
        self.viol.append(Violation(
            sig, f'iteration {self.sim.iteration}: {detail}'))

    def after_update(self):
        # runs inside the scheduler's main loop: an exception of the monitor
        # itself must surface as a harness error, not as a scheduler crash
        if self.harness_error is not None:
            return
        try:
            self.feed()
            if not self.dsm.publish_pending:
                self.compare_replica()
            if self.sim._in_loop:
                self.compare_pool()
        except Exception as exc:     # noqa: BLE001
            self.harness_error = exc

    # -- replica ---------------------------------------------------------------
    def feed(self):
        from cylc.flow.data_store_mgr import (
            ALL_DELTAS, DELTAS_MAP, WORKFLOW, apply_delta, generate_checksum)
        items = self.schd.server.publish_queue.items
        while self.n_applied < len(items):
            batch = items[self.n_applied]
            self.n_applied += 1
            self.stats['batches'] += 1
            # the per-topic messages of the batch, in the order published
            # (each after a wire round trip), then the same for the
            # classification replica
            topics = []
            has_all = False
            for topic, delta, _ser in batch:
                key = topic.decode()
                if key == ALL_DELTAS:
                    has_all = True
                    continue
                topics.append((key, delta.SerializeToString()))
            if not has_all:
                self.add('C25:published-batch-without-all-deltas',
                         f'batch #{self.n_applied} has topics '
                         f'{[t for t, _d, _s in batch]}')
            subs = [(key, DELTAS_MAP[key].FromString(wire))
                    for key, wire in topics]
            if self.n_applied == 1:
                self.first_is_snapshot = bool(subs) and all(
                    sub.reloaded for _k, sub in subs)
            if self.n_applied > 1 and items[self.n_applied - 2] is batch:
                self.stats['republished'] += 1
            elif any(sub.reloaded for _k, sub in subs):
                self.stats['reloaded_batches'] += 1
            for key, wire in topics:
                sub = DELTAS_MAP[key].FromString(wire)
                if sub.reloaded:
                    if key == WORKFLOW:
                        self.dedup[key].Clear()
                    else:
                        self.dedup[key].clear()
                apply_delta(key, sub, self.dedup)
                if key != WORKFLOW:
                    for e in list(sub.added) + list(sub.updated):
                        el = self.dedup[key].get(e.id)
                        if el is not None:
                            dedupe_lists(el)
            for key, sub in subs:
                if sub.reloaded:
                    if key == WORKFLOW:
                        self.replica[key].Clear()
                    else:
                        self.replica[key].clear()
                        self.dual.pop(key, None)
                if key != WORKFLOW:
                    both = {e.id for e in sub.added} & {
                        e.id for e in sub.updated}
                    if both:
                        self.dual.setdefault(key, set()).update(both)
                apply_delta(key, sub, self.replica)
                if key != WORKFLOW:
                    self.stats['pruned'] += len(sub.pruned)
                    if sub.HasField('checksum'):
                        att = 'id' if key == 'edges' else 'stamp'
                        mine = generate_checksum(
                            [getattr(e, att)
                             for e in self.replica[key].values()])
                        self.stats['checksum_checks'] += 1
                        if mine != sub.checksum:
                            self.add(
                                f'C25:checksum-mismatch:{key}',
                                f'published batch #{self.n_applied}: delta '
                                f'checksum {sub.checksum}, recomputed over '
                                f'the replica ({len(self.replica[key])} '
                                f'elements) {mine}')

    def diff_sig(self, key, id_, mine, theirs):
        """(signature suffix, detail) for two unequal elements."""
        f = first_diff_field(mine, theirs)
        name = f.split(':')[0]
        a, b = getattr(mine, name), getattr(theirs, name)
        fd = mine.DESCRIPTOR.fields_by_name[name]
        detail = (f'{id_}.{f}: replica {a!r} vs scheduler {b!r} after '
                  f'{self.n_applied} batches')
        if type(a).__name__.startswith('RepeatedScalar'):
            d = self.dedup[key].get(id_)
            if set(a) == set(b) or (
                    d is not None and set(getattr(d, name)) == set(b)):
                # the strict client and the scheduler hold the same members
                # in different multiplicity, or a client that drops duplicate
                # entries from its id lists after every batch agrees with the
                # scheduler on the members: the strict client differs only by
                # entries it received twice (and by what a duplicate leaves
                # behind when apply_delta prunes one occurrence)
                if id_ in self.dual.get(key, ()):
                    # root cause known (findings/C25_added_element_...): one
                    # signature whatever the list field
                    return ('duplicate-list-entries-in-client:'
                            'element-added-and-updated-in-one-batch',
                            detail)
                return (f'{key}.{name}:duplicate-list-entries-in-client:'
                        'cause-unknown', detail)
        if type(a).__name__.startswith("RepeatedScalar"):
            detail += f" [dedup client: {list(getattr(d, name)) if d is not None else None}]"
        return f"{key}:field:{f}", detail

    def compare_replica(self):
        from cylc.flow.data_store_mgr import WORKFLOW
        data = self.dsm.data[self.dsm.workflow_id]
        self.stats['replica_checks'] += 1
        for key in TOPICS:
            mine, theirs = self.replica[key], data[key]
            for id_ in theirs:
                if id_ not in mine:
                    self.add(f'C25:replica-differs:{key}:missing-element',
                             f'{id_} is in the scheduler store but not in '
                             f'the replica after {self.n_applied} batches')
                    break
            for id_ in mine:
                if id_ not in theirs:
                    self.add(f'C25:replica-differs:{key}:extra-element',
                             f'{id_} is in the replica but not in the '
                             f'scheduler store after {self.n_applied} batches')
                    break
            seen = set()
            for id_, el in theirs.items():
                m = mine.get(id_)
                if m is not None and m != el:
                    sig, detail = self.diff_sig(key, id_, m, el)
                    if sig not in seen:
                        seen.add(sig)
                        self.add('C25:replica-differs:' + sig, detail)
        m, el = self.replica[WORKFLOW], data[WORKFLOW]
        if m != el:
            f = first_diff_field(m, el)
            self.add(f'C25:replica-differs:workflow:field:{f}',
                     f'workflow.{f}: replica '
                     f'{getattr(m, f.split(":")[0])!r} vs scheduler '
                     f'{getattr(el, f.split(":")[0])!r} after '
                     f'{self.n_applied} batches')

    # -- pool vs store -----------------------------------------------------------
    def pool_diff(self, tid, fld, detail):
        sig = f'C25:store-differs-from-pool:{fld}'
        if tid in self.stale_ids:
            # root cause known: one signature whatever the field
            sig = 'C25:store-differs-from-pool:delta-from-stale-task-proxy'
            detail += (' [a delta for this task was created from a TaskProxy '
                       'object that is not the pooled one]')
        self.add(sig, detail)

    def compare_pool(self):
        dsm = self.dsm
        data = dsm.data[dsm.workflow_id]
        tps = data['task_proxies']
        self.stats['pool_checks'] += 1
        for itask in self.schd.pool.get_tasks():
            tid = itask.identity
            tp = tps.get(itask.tokens.id)
            if tp is None:
                sig = 'C25:pool-task-missing-from-store'
                note = ''
                if self.old_orphan is not None and self.old_orphan(
                        itask.tdef.name):
                    sig += ':task-definition-removed-by-reload'
                    note = (' [the task is not defined in the workflow '
                            'definition loaded by the latest reload]')
                self.add(sig, f'{tid} ({itask.state}) is in the pool but has '
                              f'no task proxy in the data store' + note)
                continue
            self.stats['tasks_compared'] += 1
            st_ = itask.state
            for fld, mine, theirs in (
                    ('state', st_.status, tp.state),
                    ('is_held', bool(st_.is_held), tp.is_held),
                    ('is_queued', bool(st_.is_queued), tp.is_queued),
                    ('is_runahead', bool(st_.is_runahead), tp.is_runahead)):
                if mine != theirs:
                    self.pool_diff(tid, fld, f'{tid}: pool {mine!r}, data '
                                             f'store {theirs!r}')
            try:
                store_flows = set(json.loads(tp.flow_nums or '[]'))
            except ValueError:
                store_flows = {'unparsable: ' + tp.flow_nums}
            if store_flows != set(itask.flow_nums):
                self.pool_diff(tid, 'flow_nums',
                               f'{tid}: pool {sorted(itask.flow_nums)}, data '
                               f'store {tp.flow_nums!r}')
            pool_outs = {trg for trg, _msg, sat in st_.outputs if sat}
            store_outs = {lab for lab, o in tp.outputs.items() if o.satisfied}
            if pool_outs != store_outs:
                self.pool_diff(tid, 'outputs',
                               f'{tid}: completed in pool {sorted(pool_outs)}'
                               f', in data store {sorted(store_outs)}')
            pool_pre = sorted(
                (sorted((f'{k.point}/{k.task}', k.output, bool(v))
                        for k, v in pre.items()), bool(pre.is_satisfied()))
                for pre in st_.prerequisites if len(list(pre.items())))
            store_pre = sorted(
                (sorted((c.task_proxy, c.req_state, c.satisfied)
                        for c in p.conditions), p.satisfied)
                for p in tp.prerequisites)
            self.stats['atoms_compared'] += sum(
                len(x[0]) for x in pool_pre)
            if pool_pre != store_pre:
                self.pool_diff(tid, 'prerequisites',
                               f'{tid}: pool {pool_pre}, data store '
                               f'{store_pre}')


async def _check(case, ctx: Ctx) -> CaseResult:
    async with RSCase(case, ctx) as sc:
        if sc.rejected:
            return CaseResult(sc.crash_violations('C25'), False,
                              ['rejected:' + sc.rejected])
        sim, drv = sc.sim, sc.drv
        from vf.sim.c27_util import install_reload_monitor
        install_reload_monitor(drv)
        mon = StoreMonitor(sim)
        mon.attach()

        def old_orphan(name):
            """The task is not in the AST loaded by the latest reload that
            reached the pool (an active task kept after its definition was
            removed)."""
            if not drv.reload_log:
                return False
            new = (drv.reload_log[-1]['edit'] or {}).get('new')
            return bool(new and name not in new['tasks'])

        mon.old_orphan = old_orphan

        async def cmd_window(n):
            if not sim.running:
                return
            dist = n % 4
            sim.schd.data_store_mgr.set_graph_window_extent(dist)
            mon.stats['window_resizes'] += 1
            sim.ev('cmd', cmd='window', err=None, n=dist, before=[],
                   after=[])

        drv.COMMANDS = drv.COMMANDS + ('window',)
        drv.cmd_window = cmd_window
        await sc.run_schedule()
        # bounded fair tail (no liveness claim in this property)
        for _ in range(TAIL_ROUNDS):
            if not sim.running:
                break
            await drv.step('round', 0)
        if mon.harness_error is not None:
            raise RuntimeError('C25 monitor failed') from mon.harness_error
        viol = crash_violations(sc, 'C25') + mon.viol
        spin = harness_spin(sim)
        st_ = mon.stats
        classes = set()
        n_cmd = 0
        for e in sim.trace:
            if e['k'] == 'cmd':
                n_cmd += 1
                classes.add('cmd:' + e['cmd'])
                if e['cmd'] == 'reload':
                    if e.get('applied'):
                        classes.add('reload-applied:' + str(e.get('edit')))
                    if e.get('raised') and not spin:
                        viol.append(Violation(
                            'C25:reload-command-raised:' + e['raised'],
                            f'reload raised {e["err"]}'))
        if spin:
            classes.add('engine-abort:scheduler-waits-forever-inside-one-call')
        if mon.first_is_snapshot is False:
            classes.add('first-batch-not-a-full-snapshot')
        if st_['pruned']:
            classes.add('pruned-elements')
        if st_['reloaded_batches'] > 1:
            classes.add('full-snapshot-published-after-start')
        if st_['republished']:
            classes.add('same-batch-object-published-twice')
        if st_['atoms_compared']:
            classes.add('prerequisite-atoms-compared')
        for lim in (5, 20, 50):
            if st_['batches'] >= lim:
                classes.add(f'batches>={lim}')
        nontrivial = st_['batches'] >= 20 and st_['pruned'] >= 1 \
            and n_cmd >= 1
        uniq = {}
        for v in viol:
            uniq.setdefault(v.sig, v)
        return CaseResult(
            list(uniq.values()), nontrivial, sorted(classes),
            inconclusive=spin,
            info={'flow': drv.flow_text, 'stats': st_})


def run_shard(ctx: Ctx):
    hyp_run(ctx, cases(), check_case, ctx.share(BUDGET[ctx.tier]))
