"""C42 The subprocess pool runs every command once, within its bounds.

Engine F: the real ``cylc.flow.subprocpool.SubProcPool`` runs real child
processes.  Every child blocks on a FIFO owned by the harness, so the order
of child exits is owned by the case (the step list), not by the OS
scheduler.  The pool's clock (module-level ``time`` of subprocpool) is a
virtual clock owned by the case, so time-outs are steps too.

History = JSON list of steps ``[op, a, b]`` interpreted by ``check_case``:

    put      a -> kind (ok / fail / ssh255 / big); b % 2 -> jobs-submit or
             other; (b // 2) % 3 -> what the command's callback does when
             the pool calls it: nothing / pool.set_stopping() / pool.close()
             (a stop request that lands INSIDE process(), between reaping
             and starting queued commands)
    proc     pool.process()
    rel      release running child number (a modulo #running)
    tick     advance the virtual clock (a: small step or past the time-out)
    stop     pool.set_stopping()
    close    pool.close()
    term     pool.terminate()   (afterwards only ``put`` is still applied)

followed by an end phase: ``terminate`` or ``drain`` (release everything,
tick past the time-out, process until the pool reports done).
"""
from __future__ import annotations

import os
import signal
import subprocess
import time as _time

from hypothesis import strategies as st

from vf.core import CaseResult, Ctx, Violation, exc_sig, hyp_run

PROP_ID = 'C42'
LEVEL = 'exploration'
BUDGET = {'quick': 1200, 'thorough': 20000}
MANIFEST = {
    'engine': 'F',
    'technique': 'stateful history over the real SubProcPool with real '
                 'FIFO-gated child processes and a virtual clock',
    'level_note': 'child exit is observed through the real Popen.poll(); the '
                  'harness serialises exits with FIFOs and waits after every '
                  'kill, so OS scheduling is not explored except for one '
                  'drawn bit: whether the poll() right after terminate()\'s '
                  'SIGKILL already sees the exit',
}
RULE = (
    'Hypothesis draws pool size 1-3 and a history of 1-30 steps (put of an '
    'ok/fail/ssh-255/big-output command as jobs-submit or other key, whose '
    'callback does nothing or (about 1 put in 6) itself requests the stop '
    'with set_stopping()/close(), so that the request lands inside '
    'process() - after the reaping of that command, before queued commands '
    'are started - or inside put_command(); '
    'process; release of a chosen running child; virtual clock tick, small '
    'or past the pool time-out; set_stopping; close; terminate) and an end '
    'phase (terminate, or drain = release all + tick past time-out + process '
    'until done).  Children are real processes blocked on a harness-owned '
    'FIFO.  Oracle: every put command got callback or callback_255 exactly '
    'once by the end; no command is launched twice; at every launch the '
    'number of live children (incl. the new one) <= size and '
    'len(runnings) <= size after every process(); no jobs-submit child is '
    'launched at or after set_stopping/close/terminate has returned, '
    'whether the request was a step of its own or was made by a callback '
    'in the middle of a process() pass.  The visibility of '
    'terminate()\'s SIGKILL to the poll() that follows it is a drawn schedule '
    'bit (both outcomes are legal OS behaviour).  Non-trivial = at '
    'least 2 commands put, at least one child really launched, and at least '
    'one of: a stop request with commands still queued or running, a '
    'time-out kill, or more commands queued than the pool size; distinct by '
    'the history.')
ASSUMPTIONS = [
    '"Callback" = either `callback` or `callback_255` invoked once with the '
    'context (DESIGN 5a).',
    '"By the end" = after terminate(), or after the pool reports '
    'is_not_done() false in the drain end phase.',
    'Running concurrently = launched by the pool and not yet exited as an OS '
    'process (the harness waits for the real exit of a released child before '
    'the next step, without reaping it).',
    'Pool size and time-out are set on the pool object after construction '
    '(the values glbl_cfg would provide).',
    'cylc_subproc.procopen(preexec_fn=os.setpgrp) is replaced by an equivalent '
    'Popen(process_group=0) (same child, no Python-level fork) for speed; '
    'everything in subprocpool.py is the real code.',
    'After terminate() the pool is only given put_command (it is closed; its '
    'selector is gone), as the scheduler does.',
    '"Once the pool is stopping" = from the moment set_stopping()/close() '
    'has returned, wherever the caller was: the scheduler calls them from a '
    'signal handler and from API commands while process() is in progress.  '
    'The harness puts that schedule under the case\'s control by letting the '
    'callback of a drawn command make the request (single thread, so no '
    'launch can happen between the request and the harness noting it).  '
    'Callbacks make no stop request during or after terminate().',
]

KINDS = ['ok', 'fail', 'ssh255', 'big']
KIND_RC = {'ok': 0, 'fail': 1, 'ssh255': 255, 'big': 0}
BIG_BYTES = 200000      # > 64 KiB pipe capacity
TIMEOUT = 100.0

CHILD_SCRIPT = """#!/bin/sh
# $1 fifo, $2 exit code, $3 number of bytes of stdout before blocking
if [ "$3" != 0 ]; then
    head -c "$3" /dev/zero | tr '\\000' x
fi
read line < "$1"
exit "$2"
"""


# ---------------------------------------------------------------- strategy
@st.composite
def histories(draw):
    size = draw(st.integers(1, 3))
    n = draw(st.integers(1, 30))
    steps = []
    for _ in range(n):
        r = draw(st.integers(0, 99))
        if r < 34:
            kind = draw(st.sampled_from([0, 0, 0, 1, 2, 3]))
            # callback action: 0 nothing, 1 set_stopping(), 2 close()
            act = draw(st.sampled_from([0] * 10 + [1, 2]))
            steps.append(['put', kind, draw(st.integers(0, 1)) + 2 * act])
        elif r < 64:
            steps.append(['proc', 0, 0])
        elif r < 80:
            steps.append(['rel', draw(st.integers(0, 5)), 0])
        elif r < 91:
            steps.append(['tick', draw(st.integers(0, 2)), 0])
        elif r < 96:
            steps.append(['stop', 0, 0])
        elif r < 98:
            steps.append(['close', 0, 0])
        else:
            steps.append(['term', 0, 0])
    end = draw(st.sampled_from(['terminate', 'drain', 'drain']))
    # OS schedule of terminate()'s SIGKILL: is the death of the child already
    # visible to the non-blocking poll() that follows it (1) or not yet (0)?
    kill_seen = draw(st.integers(0, 1))
    return {'size': size, 'steps': steps, 'end': end, 'kill_seen': kill_seen}


# ---------------------------------------------------------------- harness
class _Cmd:
    def __init__(self, idx, kind, jobs_submit, cb_action=0):
        self.idx = idx
        self.kind = kind
        self.jobs_submit = jobs_submit
        self.cb_action = cb_action      # 0 nothing, 1 set_stopping, 2 close
        self.callbacks = 0
        self.cb_kinds = []
        self.launches = 0
        self.proc = None
        self.fifo = None
        self.fd = None
        self.released = False
        self.put_when_stopping = False
        self.queued_at_terminate = False
        self.timed_out = False
        self.left_running_by_terminate = False
        self.ctx = None


def _ensure_bin(scratch):
    bindir = os.path.join(scratch, 'c42bin')
    if not os.path.isdir(bindir):
        os.makedirs(bindir, exist_ok=True)
        for name in ('vfchild', 'ssh'):
            p = os.path.join(bindir, name)
            with open(p, 'w') as f:
                f.write(CHILD_SCRIPT)
            os.chmod(p, 0o755)
    return bindir


def _exited(proc) -> bool:
    """Has the OS process exited (without reaping it)?"""
    if proc.returncode is not None:
        return True
    try:
        res = os.waitid(
            os.P_PID, proc.pid, os.WEXITED | os.WNOWAIT | os.WNOHANG)
    except ChildProcessError:
        return True
    return res is not None


def _wait_exit(proc, limit=30.0):
    """Block until the OS process has exited, without reaping it."""
    if proc.returncode is not None:
        return True
    t0 = _time.monotonic()
    while _time.monotonic() - t0 < limit:
        if _exited(proc):
            return True
        _time.sleep(0.0005)
    return False


class _Run:
    def __init__(self, case, ctx):
        import cylc.flow.subprocpool as spp
        self.spp = spp
        self.case = case
        self.scratch = ctx.scratch
        self.bindir = _ensure_bin(ctx.scratch)
        self.fifodir = os.path.join(ctx.scratch, 'c42fifo')
        os.makedirs(self.fifodir, exist_ok=True)
        self.cmds = []
        self.viol = []
        self.now = 1000.0
        self.terminated = False
        self.stop_requested = False
        self.classes = set()
        self.max_queue = 0
        self.stop_with_pending = False
        self.harness_error = None
        self.in_terminate = False
        self.in_process = False
        self.late_killed = set()
        self.env = dict(os.environ)
        self.env['PATH'] = self.bindir + os.pathsep + self.env.get('PATH', '')

    # -- instrumentation (harness-side monkeypatching only)
    def __enter__(self):
        spp = self.spp
        self._orig_time = spp.time
        self._orig_procopen = spp.procopen
        spp.time = lambda: self.now

        def procopen(cmd, *a, **kw):
            if (
                not a and kw.get('preexec_fn') is os.setpgrp
                and set(kw) <= {'stdin', 'stdoutpipe', 'stderrpipe',
                                'preexec_fn', 'env', 'usesh'}
                and kw.get('stdoutpipe') is True
                and kw.get('stderrpipe') is True
            ):
                # same child (process-group leader, piped stdout/stderr),
                # created without a Python-level fork: preexec_fn forces a
                # full fork() of the worker, 10x slower on a busy machine
                proc = subprocess.Popen(
                    cmd, bufsize=0, stdin=kw.get('stdin'),
                    stdout=subprocess.PIPE, stderr=subprocess.PIPE,
                    close_fds=False, shell=bool(kw.get('usesh')),
                    env=kw.get('env'), process_group=0)
            else:
                proc = self._orig_procopen(cmd, *a, **kw)
            self._on_launch(cmd, proc)
            return proc
        spp.procopen = procopen
        self._orig_killpg = spp._killpg

        def killpg(proc, sig):
            # Serialise the kill: kill(2) returns before the target is dead.
            # Wait (without reaping) until it is, so that what the pool sees
            # next is owned by the case, not by the OS scheduler ...
            res = self._orig_killpg(proc, sig)
            if res:
                if not _wait_exit(proc):
                    self.harness_error = 'killed child did not exit'
                # ... and in the "not yet visible" schedule let exactly the
                # next non-blocking poll() report "still running", which is
                # what the kernel may legally answer right after kill(2)
                # (and does, nearly always, on this machine).  Blocking
                # wait() is unaffected.
                if self.in_terminate and not self.case.get('kill_seen', 1):
                    real_poll = proc.poll

                    def poll_once_none():
                        proc.poll = real_poll
                        return None
                    proc.poll = poll_once_none
                    self.late_killed.add(id(proc))
            return res
        spp._killpg = killpg
        self.pool = spp.SubProcPool()
        self.pool.size = self.case['size']
        self.pool.proc_pool_timeout = TIMEOUT
        return self

    def __exit__(self, *exc):
        self.spp.time = self._orig_time
        self.spp.procopen = self._orig_procopen
        self.spp._killpg = self._orig_killpg
        # nothing may outlive the case
        for c in self.cmds:
            p = c.proc
            if p is not None:
                if p.returncode is None:
                    try:
                        os.killpg(p.pid, signal.SIGKILL)
                    except (ProcessLookupError, PermissionError):
                        pass
                    try:
                        p.wait(timeout=30)
                    except Exception:
                        pass
                else:
                    # the leader is reaped; kill stragglers of its group
                    try:
                        os.killpg(p.pid, signal.SIGKILL)
                    except (ProcessLookupError, PermissionError):
                        pass
                for fh in (p.stdout, p.stderr):
                    try:
                        if fh:
                            fh.close()
                    except Exception:
                        pass
            if c.fd is not None:
                try:
                    os.close(c.fd)
                except OSError:
                    pass
            if c.fifo:
                try:
                    os.unlink(c.fifo)
                except OSError:
                    pass
        try:
            self.pool.pipepoller.close()
        except Exception:
            pass
        return False

    def _on_launch(self, cmd, proc):
        idx = int(os.path.basename(cmd[1])[1:])
        c = self.cmds[idx]
        c.launches += 1
        if c.launches > 1:
            self.viol.append(Violation(
                'C42:command-launched-twice',
                f'command #{idx} ({c.kind}) was started {c.launches} times'))
        # children alive right now (this one included)
        alive = 1 + sum(
            1 for o in self.cmds
            if o is not c and o.proc is not None and not _exited(o.proc))
        c.proc = proc
        if alive > self.pool.size:
            self.viol.append(Violation(
                'C42:size-exceeded',
                f'{alive} children alive at launch of command #{idx}; '
                f'pool size {self.pool.size}'))
        if c.jobs_submit and self.stop_requested:
            self.viol.append(Violation(
                'C42:jobs-submit-started-while-stopping',
                f'jobs-submit command #{idx} was launched after the pool was '
                f'told to stop'))
        self.classes.add('launched')

    # -- steps
    def put(self, kind_i, js):
        kind = KINDS[kind_i % len(KINDS)]
        idx = len(self.cmds)
        c = _Cmd(idx, kind, bool(js % 2), (js // 2) % 3)
        self.cmds.append(c)
        c.fifo = os.path.join(self.fifodir, f'f{idx}')
        try:
            os.unlink(c.fifo)
        except OSError:
            pass
        os.mkfifo(c.fifo)
        # holding the FIFO open read-write means the child's open never
        # blocks and a release is a plain write: no race with child start-up
        c.fd = os.open(c.fifo, os.O_RDWR | os.O_NONBLOCK)
        exe = 'ssh' if kind == 'ssh255' else os.path.join(
            self.bindir, 'vfchild')
        cmd = [exe, c.fifo, str(KIND_RC[kind]),
               str(BIG_BYTES if kind == 'big' else 0)]
        from cylc.flow.subprocctx import SubProcContext
        key = self.spp.SubProcPool.JOBS_SUBMIT if c.jobs_submit else 'other'
        c.ctx = SubProcContext(key, cmd, host='vfhost', env=self.env)
        c.put_when_stopping = self.stop_requested
        bad_hosts = set()

        def cb(ctx_, *args):
            c.callbacks += 1
            c.cb_kinds.append(('cb', ctx_.ret_code))
            if ctx_ is not c.ctx or args != ('A', idx):
                self.viol.append(Violation(
                    'C42:callback-wrong-arguments',
                    f'command #{idx}: callback got {args!r}'))
            self.callback_action(c)

        def cb255(ctx_, *args):
            c.callbacks += 1
            c.cb_kinds.append(('cb255', ctx_.ret_code))
            self.callback_action(c)

        use255 = (idx % 2 == 0)
        self.classes.add('put:' + kind)
        self.classes.add('put:jobs-submit' if c.jobs_submit else 'put:other')
        if c.cb_action:
            self.classes.add('put:callback-requests-stop')
        if self.stop_requested:
            self.classes.add('put-after-stop')
        self.pool.put_command(
            c.ctx, bad_hosts=bad_hosts, callback=cb, callback_args=['A', idx],
            callback_255=cb255 if use255 else None)
        self.max_queue = max(self.max_queue, len(self.pool.queuings))

    def callback_action(self, c):
        """The stop request a command's callback makes, if it is one of those.

        Runs inside the pool (process() reaping c, or put_command()
        rejecting it): the request lands in the middle of that call.
        """
        if not c.cb_action or c.callbacks != 1:
            return
        if self.terminated or self.in_terminate:
            return
        first = not self.stop_requested
        queued_js = any(
            i[0].cmd_key == self.spp.SubProcPool.JOBS_SUBMIT
            for i in self.pool.queuings)
        self.mark_stop(by=c)
        if c.cb_action == 1:
            self.pool.set_stopping()
        else:
            self.pool.close()
            self.classes.add('close')
        if self.in_process:
            self.classes.add('stop-request-inside-process')
            if first:
                self.classes.add('first-stop-request-inside-process')
                if queued_js:
                    self.classes.add(
                        'first-stop-request-inside-process-with-queued-'
                        'jobs-submit')
        else:
            self.classes.add('stop-request-inside-put')

    def process(self):
        before = {c.idx for c in self._running_cmds()}
        self.in_process = True
        try:
            self.pool.process()
        finally:
            self.in_process = False
        # time-out kills seen by the harness: was running, not released,
        # gone now
        after = {c.idx for c in self._running_cmds()}
        for i in before - after:
            if not self.cmds[i].released:
                self.cmds[i].timed_out = True
                self.classes.add('timeout-kill')
        if len(self.pool.runnings) > self.pool.size:
            self.viol.append(Violation(
                'C42:size-exceeded',
                f'len(runnings)={len(self.pool.runnings)} after process(); '
                f'pool size {self.pool.size}'))

    def _running_cmds(self):
        out = []
        for item in self.pool.runnings:
            for c in self.cmds:
                if c.proc is item[0]:
                    out.append(c)
        return out

    def release(self, c):
        """Let child c exit; return once the OS process is gone."""
        if c.released or c.proc is None:
            return
        c.released = True
        os.write(c.fd, b'go\n')
        if c.kind != 'big':
            if not _wait_exit(c.proc):
                self.harness_error = f'child #{c.idx} did not exit'
            return
        # A big-output child cannot reach its FIFO until the pool has read
        # its pipe: that takes process() calls (idempotent here: nothing
        # else changes while we wait).
        t0 = _time.monotonic()
        while not _exited(c.proc):
            if c.proc.returncode is not None:
                break
            if _time.monotonic() - t0 > 30:
                self.harness_error = f'big child #{c.idx} did not exit'
                return
            self.process()
            _time.sleep(0.0005)

    def mark_stop(self, by=None):
        """Note a stop request (by = the command whose callback makes it)."""
        if not self.stop_requested:
            # (inside process() pool.runnings still lists what that pass
            # has already reaped: those are not pending any more)
            others = [i for i in self.pool.runnings
                      if i[0].returncode is None
                      and (by is None or i[0] is not by.proc)]
            if self.pool.queuings or others:
                self.stop_with_pending = True
                self.classes.add('stop-with-pending')
            if any(i[0].cmd_key == self.spp.SubProcPool.JOBS_SUBMIT
                   for i in self.pool.queuings):
                self.classes.add('stop-with-queued-jobs-submit')
        self.stop_requested = True

    def terminate(self):
        self.mark_stop()
        queued = [i[0] for i in self.pool.queuings]
        for c in self.cmds:
            if any(c.ctx is q for q in queued):
                c.queued_at_terminate = True
        if queued:
            self.classes.add('terminate-with-queued')
        if self.pool.runnings:
            self.classes.add('terminate-with-running')
        self.in_terminate = True
        try:
            self.pool.terminate()
        finally:
            self.in_terminate = False
        self.terminated = True
        left = [c for c in self._running_cmds()]
        for c in left:
            c.left_running_by_terminate = True
        if left:
            self.classes.add('terminate-kill-not-yet-visible')
        # (commands left in runnings are reported by judge() as
        # no-callback:running-at-terminate)
        if self.pool.queuings:
            self.viol.append(Violation(
                'C42:terminate-left-queue',
                f'after terminate(): queuings={len(self.pool.queuings)}'))

    def step(self, op, a, b):
        if self.terminated and op != 'put':
            return
        if op == 'put':
            self.put(a, b)
        elif op == 'proc':
            self.process()
        elif op == 'rel':
            run = self._running_cmds()
            run = [c for c in run if not c.released]
            if run:
                self.release(run[a % len(run)])
                self.classes.add('release')
        elif op == 'tick':
            self.now += [1.0, TIMEOUT / 2, TIMEOUT + 1][a % 3]
        elif op == 'stop':
            self.mark_stop()
            self.pool.set_stopping()
        elif op == 'close':
            self.mark_stop()
            self.pool.close()
            self.classes.add('close')
        elif op == 'term':
            self.terminate()

    def finish(self):
        if self.terminated:
            return
        if self.case['end'] == 'terminate':
            self.terminate()
            return
        self.classes.add('end-drain')
        limit = 3 * len(self.cmds) + 10
        n = 0
        while self.pool.is_not_done():
            n += 1
            if n > limit:
                self.viol.append(Violation(
                    'C42:pool-never-done',
                    f'pool still has work after {limit} release/process '
                    f'rounds: runnings={len(self.pool.runnings)} '
                    f'queuings={len(self.pool.queuings)}'))
                return
            for c in self._running_cmds():
                if self.harness_error:
                    return
                # leave every third un-released child to the time-out
                if not c.released and c.idx % 3 != 2:
                    self.release(c)
            self.now += TIMEOUT + 1
            self.process()

    # -- final oracle
    def judge(self):
        for c in self.cmds:
            if c.callbacks == 1:
                continue
            if c.callbacks > 1:
                self.viol.append(Violation(
                    'C42:multiple-callbacks',
                    f'command #{c.idx} ({c.kind}, '
                    f'{"jobs-submit" if c.jobs_submit else "other"}) got '
                    f'{c.callbacks} callbacks: {c.cb_kinds}'))
                continue
            what = (f'command #{c.idx} ({c.kind}, '
                    f'{"jobs-submit" if c.jobs_submit else "other"}) was put '
                    f'but never got a callback')
            if c.launches == 0:
                if c.queued_at_terminate:
                    self.viol.append(Violation(
                        'C42:no-callback:drained-by-terminate',
                        what + ': it was still queued when terminate() '
                        'drained the queue'))
                elif c.jobs_submit and self.stop_requested:
                    self.viol.append(Violation(
                        'C42:no-callback:jobs-submit-dequeued-while-stopping',
                        what + ': process() dequeued it after set_stopping '
                        'and dropped it'))
                else:
                    self.viol.append(Violation(
                        'C42:no-callback:never-launched', what))
            elif c.left_running_by_terminate:
                self.viol.append(Violation(
                    'C42:no-callback:running-at-terminate',
                    what + ': it was running when terminate() was called; '
                    'terminate() killed it but its non-blocking poll() did '
                    'not see the exit yet, so it stays in pool.runnings '
                    'for ever (terminate() does not wait)'))
            elif c.timed_out:
                self.viol.append(Violation(
                    'C42:no-callback:timed-out', what + ' (killed on time-out)'))
            else:
                self.viol.append(Violation(
                    'C42:no-callback:after-launch',
                    what + f' (launched, released={c.released})'))


def check_case(case, ctx: Ctx) -> CaseResult:
    from vf.cylcutil import reset_globals
    reset_globals()
    run = _Run(case, ctx)
    with run:
        try:
            for op, a, b in case['steps']:
                run.step(op, a, b)
                if run.harness_error:
                    break
            if not run.harness_error:
                run.finish()
        except Exception as exc:
            run.viol.append(Violation(
                'C42:exception:' + exc_sig(exc), repr(exc)))
        else:
            if not run.harness_error:
                run.judge()
    if run.harness_error:
        raise RuntimeError('C42 harness: ' + run.harness_error)
    nput = len(run.cmds)
    launched = sum(1 for c in run.cmds if c.launches)
    over = run.max_queue > case['size']
    if over:
        run.classes.add('queue-longer-than-size')
    nontrivial = (
        nput >= 2 and launched >= 1
        and (run.stop_with_pending or 'timeout-kill' in run.classes or over))
    # de-duplicate violations by signature (first detail wins)
    seen = {}
    for v in run.viol:
        seen.setdefault(v.sig, v)
    return CaseResult(
        list(seen.values()), nontrivial=nontrivial,
        classes=sorted(run.classes), distinct_key=case,
        info={'commands': nput, 'launched': launched})


def run_shard(ctx: Ctx):
    hyp_run(ctx, histories(), check_case, ctx.share(BUDGET[ctx.tier]))
