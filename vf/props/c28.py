"""C28 Group trigger runs each member once, honouring in-group order."""
from __future__ import annotations

from typing import Dict, List, Optional, Set, Tuple

from hypothesis import strategies as st

from vf.core import CaseResult, Ctx, Violation, hyp_run
from vf.gen.wfspec import atoms_of, wfspecs
from vf.sim.drive import SCase, job_outputs, outcome_maps, run_async
from vf.sim.model import Model, atom_target, expand_out

PROP_ID = 'C28'
LEVEL = 'exploration'
BUDGET = {'quick': 352, 'thorough': 11000}
MANIFEST = {
    'engine': 'S',
    'technique': 'stateful PBT on the stepped scheduler: generated group '
                 'triggers (commands.force_trigger_tasks with a list of ids) '
                 'checked against a model of the statement over the launch '
                 'trace',
}
RULE = (
    'Generated workflow (2-5 tasks, 2-3 cycles, and/or prerequisites, '
    'inter-cycle offsets, custom and optional outputs, optional runahead '
    'limit and queue limits), random job outcomes, and a history over loop / '
    'return / advance / deliver / fair-round plus hold, release, hold-point, '
    'pause, resume on pooled or not-yet-spawned instances, with one or two '
    'group '
    'triggers: commands.force_trigger_tasks(schd, [ids...], flow) with 1-4 '
    'model instances grown along graph edges from a random seed instance '
    '(members may be waiting, held, queued, runahead-limited, preparing / '
    'submitted / running, finished and gone from the pool, or not spawned '
    'yet) and flow option default / new / 1 / 2 / none; then a fair drain.  '
    'One case in four (where the drawn graph has a suitable edge; about 9% '
    'of all cases) is of the family "retained start member": an edge '
    'P.p:out -> C.q of the drawn graph is picked, the first job of P.p is '
    'scripted to complete `out` but to end final with P incomplete (failed '
    'though success is required - made required if no line uses P:fail - '
    'or succeeded / failed without a required custom output), a warm-up of '
    '6-21 fair rounds lets it get there, then {P.p, C.q (+ a neighbour)} is '
    'triggered with a drawn flow option: the group-start member sits in the '
    'pool in a final state carrying the very output its in-group child '
    'waits for (classes family:retained-start, role:retained-final-start, '
    'retained-final-start-with-child-on-its-completed-output).  '
    'In-group prerequisites come from the harness AST.  Oracle per trigger '
    'and member, over `launch` trace events (with flows) after the command: '
    '(A) no more launches that only the triggered flow can account for '
    '(flows all new / all N / none / the single flow of a one-flow case) '
    'than triggers of the member still owed one; a group-start member with '
    'a live job (preparing / submitted / running) gets no later submit '
    'number in its own or the triggered flows; (B) a group-start member without '
    'live job is launched in the triggered flow by the end of the drain '
    'whatever holds and pause say, and is queued by the command only if it '
    'was not queued before and its queue could be full; (C) a member with '
    'in-group prerequisites is launched in the triggered flow only when its '
    'prerequisite expression is true with off-group and pre-initial atoms '
    'taken as true and in-group atoms true iff the scheduler processed that '
    'output of the parent after the command (or the parent was a live '
    'group-start member that had it already); (D) after the last trigger, a '
    'member whose expression is true at the end has been launched unless it '
    'sits in the pool held, queued, runahead-limited or the workflow is '
    'paused.  (B) and (D) only for the last trigger of a conclusive drain.  '
    'Non-trivial = a trigger that the scheduler accepted with >= 2 members '
    'and >= 1 in-group edge; distinct by the whole case.')
ASSUMPTIONS = [
    '"The triggered flow": --flow=N -> launches whose flows contain N; '
    '--flow=new -> launches carrying a flow number not seen before the '
    'command; --flow=none -> launches with no flow; default -> any launch '
    'after the command (the documented default assignment - flows of active '
    'members, else all active flows - is not pinned down further).',
    '--flow=none: only group-start members that are not in the pool (or are '
    'there without flows) are required to run (documented: "only works for '
    'inactive tasks"; no-flow tasks do not flow on, so members with in-group '
    'prerequisites cannot follow).',
    'Default flow option on a (connected) group all of whose active members '
    'are no-flow proxies: the documented default assignment ("the existing '
    'flow numbers of those active tasks") is then no flow, so the trigger is '
    'read like --flow=none and members with in-group prerequisites are not '
    'required to run (observation class in-group-child-of-no-flow-group).',
    'Only group-start members are exempt from holds and pause (the statement '
    'says so for them only); other members are required to run only if at '
    'the end of the drain they are not held, queued or runahead-limited and '
    'the workflow is not paused (weakest reading).',
    '"Its queue is full" is decided with an upper bound of the active count '
    '(members of the queue that are preparing / submitted / running / '
    'waiting-on-job-prep before or after the command, or triggered by the '
    'same command), so the check never demands a launch the limit forbids.',
    'A prerequisite expression is evaluated as cylc documents conditional '
    'triggers (and/or with parentheses as rendered by the harness); an '
    'expression satisfied by its off-group atoms alone lets the member run '
    'at once.',
    'An output that a group-start member had completed before the command '
    'counts for its in-group children only if the member has a live job '
    '(it is left to finish, the output stands); a member that is re-run by '
    'the trigger - waiting, or retained in a final state - must produce the '
    'output again ("other members run only after their in-group '
    'prerequisites are satisfied", the re-run being the triggered one).',
    'Liveness ("then runs") is decided at quiescence / shutdown of the fair '
    'drain only; iteration cap => inconclusive.  No --wait, no stop '
    'commands, no retries, no future/absolute triggers, no xtriggers in this '
    'profile.',
    'A jobs-submit of a job that became preparing before the command '
    'started is the old job, not a run caused by the trigger (a member that '
    'was preparing when the command came, or the orphan of a proxy that an '
    'earlier trigger removed while it was preparing); a re-spawned proxy '
    'that is prepared after the command counts as a run even if it re-uses '
    'the old submit number.  Under --flow=none a waiting '
    'no-flow proxy may be merged into '
    'a flow before it is launched: any launch after the command counts.',
    '"Left to finish rather than resubmitted" (live group-start member): a '
    'later submit number counts as a resubmission only if its flows lie '
    'within the member\'s own flows plus the triggered ones; under the '
    'default flow option the triggered flows are the documented ones (flows '
    'of the group\'s active members, the live member being one), so the '
    'natural arrival of another flow at the same task later on is not '
    'charged to the trigger.',
    'A live group-start member whose job ends by itself after the command '
    '(the command not having touched its status) was "left to finish"; a '
    'later job of it that something else brings about once it is final (a '
    'retained incomplete task re-queued when a flow reaches it again) is '
    'not a resubmission by the trigger.',
    'A member that an earlier trigger has triggered and that is still '
    'waiting for its job (manual, not preparing yet) when a second trigger '
    'names it, and that the second command leaves in the pool (e.g. '
    '--flow=none removes nothing), still owes the earlier trigger a launch: '
    'the statement does not say a later trigger revokes it, so that launch '
    'is not held against the later trigger\'s in-group order.',
    'The recorded root cause "active member not in the triggered flow" '
    'covers every pooled non-start member whose proxy survives the removal '
    'for the triggered flows (so that the re-spawn in the triggered flow is '
    'dropped by add_to_pool): no flow in common, or - seen in the pool after '
    'the command - only stripped of the triggered flows and kept in others.',
    'Root cause with its own suffix (pending entry): under --flow=new/N a '
    'pooled group-start member keeps its old flows (the trigger merges the '
    'triggered flow into it), its outputs spawn the other members in old + '
    'triggered flows, and a member that ran before in one of the old flows '
    'is not spawned again (its history was erased for the triggered flow '
    'only): recognised by member not pooled, launched before the command in '
    'a non-triggered flow F, and a pooled group-start member upstream in '
    'the group carrying F; at the end the member is not in the pool, or - '
    'spawned later by another parent that is in the triggered flow alone - '
    'waits there with exactly the outputs of those merged start members '
    'unsatisfied.',
    'The recorded root cause "messages of an orphaned job complete the '
    're-spawned proxy" is recognised from the trace alone: outputs credited '
    'to the pooled proxy of the member after the command whose job became '
    'preparing before the command started (whichever trigger removed the '
    'proxy that owned the job).',
    'Violations that trace back to one of four recorded root causes carry '
    'their own signature suffix (live group-start parent: all outputs '
    'replayed; active member outside the triggered flow, also for members '
    'downstream of it inside the group; messages of an orphaned job '
    'completing the re-spawned proxy; custom output already complete on a '
    'retained group-start proxy); every other violation keeps the plain '
    'signature.',
]

LIVE = ('preparing', 'submitted', 'running')
FINAL = ('succeeded', 'failed', 'submit-failed', 'expired')
FLOWS = [[], [], [], ['new'], ['new'], ['1'], ['2'], ['none']]
PRE_OPS = ['loop', 'loop', 'loop', 'ret', 'ret', 'adv', 'adv', 'del', 'del',
           'round', 'round', 'round', 'hold', 'release', 'pause', 'resume']
MID_OPS = ['loop', 'loop', 'ret', 'adv', 'del', 'hold', 'release', 'pause',
           'resume']


# ---------------------------------------------------------------------------
# generator

def _neighbours(model: Model, insts, group: Set[int]) -> List[int]:
    idx = {inst: i for i, inst in enumerate(insts)}
    out = set()
    for gi in group:
        t, p = insts[gi]
        for (u, q, _o) in model.real_atoms(t, p):
            if (u, q) in idx:
                out.add(idx[(u, q)])
    for i, (t, p) in enumerate(insts):
        if i in group:
            continue
        for (u, q, _o) in model.real_atoms(t, p):
            if (u, q) in idx and idx[(u, q)] in group:
                out.add(i)
    return sorted(out - group)


@st.composite
def groups(draw, model: Model, insts) -> List[int]:
    n = len(insts)
    group = {draw(st.integers(0, n - 1))}
    for _ in range(draw(st.sampled_from([0, 1, 1, 2, 2, 3]))):
        nb = _neighbours(model, insts, group)
        mode = draw(st.integers(0, 4))
        if mode <= 2 and nb:
            group.add(draw(st.sampled_from(nb)))
        else:
            group.add(draw(st.integers(0, n - 1)))
    return sorted(group)


def _steps(ops, max_size):
    return st.lists(st.tuples(st.sampled_from(ops), st.integers(0, 15))
                    .map(list), max_size=max_size)


@st.composite
def cases(draw):
    spec = draw(wfspecs({'max_tasks': 5, 'max_fcp': 3, 'abs': False,
                         'future': False, 'submit_opt': False}))
    ex = spec['extra']
    if draw(st.booleans()):
        ex['runahead'] = 'P%d' % draw(st.sampled_from([0, 0, 1, 2]))
    qk = draw(st.integers(0, 5))
    if qk == 0:
        ex['queues'] = [{'name': 'default',
                         'limit': draw(st.integers(1, 2))}]
    elif qk == 1:
        k = draw(st.integers(1, len(spec['tasks'])))
        ex['queues'] = [{'name': 'q1', 'limit': draw(st.integers(1, 2)),
                         'members': spec['tasks'][:k]}]
    outcomes = draw(outcome_maps(spec))
    model = Model(spec)
    insts = model.instances()
    family = 'random-history'
    retained = None
    if insts and draw(st.integers(0, 3)) == 0:
        retained = draw(retained_start(spec, model, insts, outcomes))
    if retained is not None:
        # family "retained start member": a parent scripted to end final
        # but incomplete (so it stays in the pool with its outputs), a
        # warm-up of fair rounds that lets it get there, then a trigger of
        # the parent, a child on one of those outputs (and maybe more)
        family = 'retained-start'
        group, warm = retained
        sched = [['round', 2]] * warm + draw(_steps(MID_OPS, 3))
        if draw(st.integers(0, 2)) == 0:
            sched += [['round', draw(st.integers(0, 2))]]
    else:
        sched = draw(_steps(PRE_OPS, 26))
        if draw(st.integers(0, 9)) == 0:
            sched.insert(draw(st.integers(0, len(sched))),
                         ['hold-point', draw(st.integers(0, 3))])
    if insts:
        sched.append(['gtrigger',
                      group if retained is not None
                      else draw(groups(model, insts)),
                      draw(st.sampled_from(FLOWS))])
        if draw(st.integers(0, 2)) == 0:
            sched += draw(_steps(MID_OPS, 10))
            sched.append(['gtrigger', draw(groups(model, insts)),
                          draw(st.sampled_from(FLOWS))])
        sched += draw(_steps(MID_OPS, 6))
        if draw(st.booleans()):
            sched.append(['resume', 0])
    return {'spec': spec, 'outcomes': outcomes, 'schedule': sched,
            'family': family}


@st.composite
def retained_start(draw, spec, model: Model, insts, outcomes):
    """Pick a graph edge (P.p:out -> C.q) of the drawn workflow and script
    the first job of P.p so that it completes `out` but ends in a final
    state with P incomplete (failed although success is required, or
    succeeded / failed without a required custom output): the proxy then
    stays in the pool with its completed outputs.  Mutates `spec['opt']`
    (success of P made required, where no graph line asks for P:fail) and
    `outcomes`.  Returns (group as instance indices, warm-up length) or None
    when the workflow has no such edge."""
    idx = {inst: i for i, inst in enumerate(insts)}
    fails_used = {a['t'] for sec in spec['sections'] for ln in sec['lines']
                  for a in atoms_of(ln['lhs'])
                  if a['out'] in ('failed', 'finished')}
    cands = []
    for (c, q) in insts:
        if q < model.start:
            continue
        for (par, p, out) in model.real_atoms(c, q):
            if (par, p) != (c, q) and (par, p) in idx:
                cands.append((par, p, out, c, q))
    if not cands:
        return None
    par, p, out, c, q = draw(st.sampled_from(sorted(set(cands))))
    o = spec['opt'][par]
    if o.get('fail_required'):
        return None
    customs = list(spec.get('custom', {}).get(par, {}))
    options = [{'final': 'failed'}]
    for nm in customs:
        options.append({'final': None, 'skip': [nm]})
        options.append({'final': 'failed', 'skip': [nm]})

    def usable(oc, mdl):
        outs = job_outputs(spec, par, oc)
        return out in outs and not mdl.complete(par, outs)

    good = [oc for oc in options if usable(oc, model)]
    if not good and o.get('succ') and par not in fails_used:
        # (optional success, no line uses P:fail: declare it required)
        o['succ'] = False
        mdl2 = Model(spec)
        good = [oc for oc in options if usable(oc, mdl2)]
        if not good:
            o['succ'] = True
    if not good:
        return None
    first = dict(draw(st.sampled_from(good)))
    again = draw(st.sampled_from([{'final': None}, {'final': None}, first]))
    outcomes[f'{p}/{par}'] = [first, dict(again)]
    group = {idx[(par, p)], idx[(c, q)]}
    if draw(st.integers(0, 2)) == 0:
        nb = _neighbours(model, insts, group)
        if nb:
            group.add(draw(st.sampled_from(nb)))
    return sorted(group), draw(st.integers(2, 7))


# ---------------------------------------------------------------------------
# model helpers

def queue_of(spec) -> Dict[str, Tuple[str, int]]:
    """task -> (queue name, limit); limit 0 = unlimited."""
    # (the default queue has a documented default limit of 100)
    out = {t: ('default', 100) for t in spec['tasks']}
    for q in spec['extra'].get('queues') or []:
        if q['name'] == 'default':
            for t in spec['tasks']:
                if out[t][0] == 'default':
                    out[t] = ('default', q['limit'])
        else:
            for t in q.get('members') or []:
                out[t] = (q['name'], q['limit'])
    return out


def out_of_msg(spec, name: str, msg: str) -> Optional[str]:
    if msg in ('submitted', 'started', 'succeeded', 'expired'):
        return msg
    if msg.startswith('failed'):
        return 'failed'
    if msg == 'submission failed':
        return 'submit-failed'
    for nm, m in spec.get('custom', {}).get(name, {}).items():
        if m == msg:
            return nm
    return None


def in_flow(flow_opt: List[str], flows: List[int], seen_before: Set[int],
            new: Optional[Set[int]] = None):
    """Is a launch with these flows 'in the triggered flow'?

    new: the flow numbers the command itself brought into being (--flow=new);
    when not known, any flow number not seen before the command.
    """
    if not flow_opt:
        return True
    if flow_opt == ['none']:
        return not flows
    if flow_opt == ['new']:
        if new:
            return any(f in new for f in flows)
        return any(f not in seen_before for f in flows)
    return any(str(f) in flow_opt for f in flows)


def only_flow(flow_opt, flows, seen_before, single_flow, new=None) -> bool:
    """Can only the triggered flow account for a launch with these flows?"""
    if not flow_opt:
        # (a no-flow proxy triggered again stays in no flow)
        return single_flow and bool(flows)
    if flow_opt == ['none']:
        return not flows
    if flow_opt == ['new']:
        if new:
            return bool(flows) and all(f in new for f in flows)
        return bool(flows) and all(f not in seen_before for f in flows)
    return bool(flows) and all(str(f) in flow_opt for f in flows)


class Trig:
    """One accepted group trigger command, as the oracle sees it."""

    def __init__(self, idx, ev):
        self.idx = idx
        self.ev = ev
        self.group: List[str] = ev['group']
        self.flow: List[str] = ev['flow']
        self.before = {f'{t["cycle"]}/{t["name"]}': t for t in ev['before']}
        self.after = {f'{t["cycle"]}/{t["name"]}': t for t in ev['after']}
        self.paused = ev['paused']
        self.prep_before = set(ev['prep_before'])
        self.prep_after = set(ev['prep_after'])
        self.seen_flows: Set[int] = set()
        self.new_flows: Set[int] = set()
        self.start: Dict[str, bool] = {}
        self.in_edges: Dict[str, List[Tuple[str, str]]] = {}


def eval_tree(tree, p, model: Model, truth) -> bool:
    """truth(atom, target point) -> bool for one expanded output atom."""
    if 'op' in tree:
        vals = [eval_tree(a, p, model, truth) for a in tree['args']]
        return all(vals) if tree['op'] == '&' else any(vals)
    q = atom_target(tree, p)
    if q < model.start:
        return True
    return any(truth(tree['t'], q, o) for o in expand_out(tree['out']))


# ---------------------------------------------------------------------------

def check_case(case, ctx: Ctx) -> CaseResult:
    return run_async(_check(case, ctx))


def watch_outputs(sim, spec):
    """Record every output the scheduler completes while processing a task
    message as an `out` trace event (the engine's `pm` monitor skips
    messages after which the task proxy has left the pool)."""
    tem = sim.schd.task_events_mgr
    pool = sim.schd.pool
    inner = tem.process_message

    def process_message(itask, severity, message, *a, **k):
        # (event_time, flag, submit_num, forced)
        msn = k.get('submit_num', a[2] if len(a) > 2 else None)
        pooled = pool.get_task(itask.point, itask.tdef.name) is itask
        r = inner(itask, severity, message, *a, **k)
        o = out_of_msg(spec, itask.tdef.name, str(message))
        if o is not None and o in itask.state.outputs.get_completed_outputs():
            # sn: the job the scheduler credited the message to; msn: the
            # job number the message itself carried (None = internal);
            # pooled: the proxy was the one in the pool (not a removed one)
            sim.ev('out', cycle=str(itask.point), name=itask.tdef.name,
                   out=o, sn=itask.submit_num, msn=msn, pooled=pooled)
        return r

    tem.process_message = process_message


async def _rounds(sc: SCase, n: int):
    """n fair rounds: every pending command returns, every live job emits
    its next message, every message is delivered, one main-loop iteration."""
    sim = sc.sim
    for _ in range(n):
        if not sim.running:
            return
        for it in sim.pending_cmds():
            sim.mark_returned(it)
        for job in sorted(sim.live_jobs(), key=lambda j: j.key):
            sim.advance(job)
        for msg in list(sim.inflight):
            sim.deliver(msg)
        await sc.drv.loop()


async def _gtrigger(sc: SCase, idxs: List[int], flow: List[str]):
    from cylc.flow import commands
    sim, drv = sc.sim, sc.drv
    if not sim.running:
        return
    ids_all = drv.instance_ids()
    if not ids_all:
        return
    ids = []
    for i in idxs:
        id_ = ids_all[i % len(ids_all)]
        if id_ not in ids:
            ids.append(id_)
    schd = sim.schd

    def prep():
        return sorted(t.identity for t in schd.pool.get_tasks()
                      if t.waiting_on_job_prep)

    info = {'group': ids, 'flow': list(flow), 'n0': len(sim.trace),
            'paused': bool(schd.is_paused), 'prep_before': prep()}
    await drv._run('gtrigger', commands.force_trigger_tasks(
        schd, list(ids), list(flow), flow_wait=False), **info)
    sim.trace[-1]['prep_after'] = prep() if sim.running else []


async def _check(case, ctx: Ctx) -> CaseResult:
    spec = case['spec']
    async with SCase(case, ctx) as sc:
        if sc.rejected:
            return CaseResult(sc.crash_violations(PROP_ID), False,
                              ['rejected:' + sc.rejected])
        sim = sc.sim
        watch_outputs(sim, spec)
        for step in case['schedule']:
            if not sim.running:
                break
            if step[0] == 'gtrigger':
                await _gtrigger(sc, step[1], step[2])
            elif step[0] == 'round':
                await _rounds(sc, 1 + step[1] % 3)
            else:
                await sc.drv.step(*step)
        await sc.drain()
        final_pool = None
        if sim.running:
            final_pool = sim.pool_snapshot()
            paused_end = bool(sim.schd.is_paused)
        else:
            paused_end = False
            for ev in reversed(sim.trace):
                if ev['k'] == 'shutdown':
                    final_pool = ev['pool']
                    break
        viol = sc.crash_violations(PROP_ID)
        crashed = bool(viol)
        classes: Set[str] = {'family:' + case.get('family',
                                                  'random-history')}
        nontrivial = _oracle(sc, spec, final_pool, paused_end, crashed,
                             viol, classes)
        uniq = {}
        for v in viol:
            uniq.setdefault(v.sig, v)
        return CaseResult(list(uniq.values()), nontrivial, sorted(classes),
                          inconclusive=sc.inconclusive,
                          info={'flow': sc.drv.flow_text})


def _oracle(sc: SCase, spec, final_pool, paused_end, crashed, viol,
            classes) -> bool:
    sim, model = sc.sim, sc.model
    to_int = sc.drv.to_int
    trace = sim.trace
    qof = queue_of(spec)

    def inst_of(id_: str) -> Tuple[str, int]:
        cyc, name = id_.split('/', 1)
        return name, to_int[cyc]

    # -- collect triggers, launches, processed outputs ----------------------
    trigs: List[Trig] = []
    seen_flows: Set[int] = {1}
    # events emitted while a trigger command runs precede its `cmd` event:
    # flows they carry are not "seen before the command"
    in_cmd = set()
    for j, ev in enumerate(trace):
        if ev['k'] == 'cmd' and ev['cmd'] == 'gtrigger':
            in_cmd.update(range(ev['n0'], j))
    launches: Dict[str, List[Tuple[int, dict]]] = {}
    pms: Dict[str, List[Tuple[int, Set[str]]]] = {}
    outs: Dict[str, List[Tuple[int, dict]]] = {}
    # (member, submit number) -> trace indices at which it became preparing
    preps: Dict[Tuple[str, int], List[int]] = {}
    states: Dict[str, List[Tuple[int, dict]]] = {}
    removes: Dict[str, List[int]] = {}
    for i, ev in enumerate(trace):
        k = ev['k']
        if k == 'state':
            states.setdefault(f'{ev["cycle"]}/{ev["name"]}', []).append(
                (i, ev))
        elif k == 'remove':
            removes.setdefault(f'{ev["cycle"]}/{ev["name"]}', []).append(i)
        if k == 'state' and ev['after'][0] == 'preparing' and (
                ev['before'][0] != 'preparing'):
            preps.setdefault((f'{ev["cycle"]}/{ev["name"]}',
                              ev['submit_num']), []).append(i)
        if k == 'cmd' and ev['cmd'] == 'gtrigger':
            classes.add('trigger-error' if ev['err'] else 'trigger')
            if ev['err'] is None:
                tg = Trig(i, ev)
                tg.seen_flows = set(seen_flows)
                for t in ev['before']:
                    tg.seen_flows.update(t['flows'])
                # flow numbers that appear while the command runs (a later
                # --flow=new command makes other ones: not this trigger's)
                for e2 in trace[ev['n0']:i]:
                    tg.new_flows.update(e2.get('flows') or ())
                for t in ev['after']:
                    tg.new_flows.update(t['flows'])
                tg.new_flows -= tg.seen_flows
                trigs.append(tg)
            for t in ev['after']:
                seen_flows.update(t['flows'])
        elif k == 'launch':
            id_ = f'{ev["cycle"]}/{ev["name"]}'
            launches.setdefault(id_, []).append((i, ev))
            seen_flows.update(ev.get('flows') or ())
        elif k == 'out':
            id_ = f'{ev["cycle"]}/{ev["name"]}'
            pms.setdefault(id_, []).append((i, {ev['out']}))
            outs.setdefault(id_, []).append((i, ev))
        elif 'flows' in ev and i not in in_cmd:
            seen_flows.update(ev['flows'] or ())
    if not trigs:
        return False
    single_flow = seen_flows <= {1}

    def predates(m, submit_num, i, tg) -> bool:
        """Was job `submit_num` of m, seen at trace index i, prepared before
        trigger command tg started?  (Then it is an old job - possibly the
        orphan of a proxy that this or an earlier trigger removed - and not
        a run caused by tg.)"""
        at = [p for p in preps.get((m, submit_num), ()) if p <= i]
        return bool(at) and at[-1] < tg.ev['n0']
    if len(trigs) > 1:
        classes.add('repeated-trigger')

    nontrivial = False
    credit: Dict[str, int] = {}
    for ti, tg in enumerate(trigs):
        gset = set(tg.group)
        last = ti == len(trigs) - 1
        fl = tg.flow
        classes.add('flow:' + (fl[0] if fl else 'default'))
        if tg.paused:
            classes.add('paused-at-trigger')
        classes.add('group-size:%d' % min(len(gset), 4))
        # in-group edges from the AST
        n_edges = 0
        for m in tg.group:
            t, p = inst_of(m)
            edges = []
            for tr in model.trees_at(t, p):
                for a in atoms_of(tr):
                    q = atom_target(a, p)
                    uid = f'{sc.drv.to_str.get(q)}/{a["t"]}'
                    if q >= model.start and uid in gset:
                        edges.append((uid, a['out']))
            tg.in_edges[m] = edges
            tg.start[m] = not edges
            n_edges += len(edges)
        if len(gset) >= 2 and n_edges:
            nontrivial = True
            classes.add('in-group-edge')
        # connected components of the id list (each is triggered as a group
        # of its own, with its own default flow assignment)
        comp = {m: {m} for m in tg.group}
        for m in tg.group:
            for (u, _o) in tg.in_edges[m]:
                if comp[u] is not comp[m]:
                    merged = comp[u] | comp[m]
                    for x in merged:
                        comp[x] = merged

        def default_is_no_flow(m, _tg=tg, _fl=fl, _comp=comp):
            """Default flow option and every active member of m's connected
            group is a no-flow proxy: the documented default ("the existing
            flow numbers of those active tasks") is no flow at all."""
            act = [_tg.before[x] for x in _comp[m] if x in _tg.before]
            return not _fl and bool(act) and not any(
                t['flows'] for t in act)

        def window_end(m, _ti=ti):
            for t2 in trigs[_ti + 1:]:
                if m in t2.group:
                    return t2.idx
            return len(trace)

        def completed(uid, out, upto, _tg=tg):
            """Did the scheduler process output `out` of in-group parent
            `uid` after the command and before trace index `upto`?"""
            b = _tg.before.get(uid)
            if (_tg.start[uid] and b is not None and b['status'] in LIVE
                    and out in b['outputs']):
                return True
            return any(_tg.idx < i < upto and out in new
                       for (i, new) in pms.get(uid, ()))

        def stale(uid, out, _tg=tg):
            """custom output that a retained (not removed) group-start
            member still carried from an earlier job at the command"""
            b = _tg.before.get(uid)
            if not (_tg.start[uid] and b is not None
                    and out in b['outputs']
                    and out in spec.get('custom', {}).get(
                        uid.split('/', 1)[1], {})):
                return False
            if b['status'] not in LIVE:
                return True
            # ... or that a live member re-queued earlier (same retained
            # proxy, e.g. by a first trigger) still carries from a job older
            # than the one it has now
            had = [ev['sn'] for (i, ev) in outs.get(uid, ())
                   if i < _tg.idx and ev['out'] == out]
            return bool(had) and had[-1] < b['submit_num']

        def expr_true(m, upto, _gset=gset, fresh_only=False):
            t, p = inst_of(m)

            def truth(u, q, o):
                uid = f'{sc.drv.to_str.get(q)}/{u}'
                if uid not in _gset:
                    return True
                if fresh_only and stale(uid, o):
                    return False
                return completed(uid, o, upto)

            return all(eval_tree(tr, p, model, truth)
                       for tr in model.trees_at(t, p))

        def is_off(x, _tg=tg, _fl=fl):
            """Pooled member whose proxy the removal for the triggered
            flow(s) leaves in the pool: none of its flows is a triggered
            one, or (seen after the command) it was only stripped of the
            triggered flows and lives on in its other flows."""
            bx = _tg.before.get(x)
            if bx is None:
                return False
            if not _fl:
                return not bx['flows']
            if _fl == ['none']:
                return False
            if not in_flow(_fl, bx['flows'], _tg.seen_flows,
                           _tg.new_flows):
                return True
            ax = _tg.after.get(x)
            return (ax is not None and bool(ax['flows'])
                    and set(ax['flows']) < set(bx['flows'])
                    and not in_flow(_fl, ax['flows'], _tg.seen_flows,
                                    _tg.new_flows)
                    and not any(_tg.ev['n0'] <= j < _tg.idx
                                for j in removes.get(x, ())))

        def merged_old_flows(m, _tg=tg, _fl=fl, parents=None) -> Set[int]:
            """Flows (not triggered ones) in which m was launched before the
            command and which a pooled group-start member upstream of m
            inside the group carries (explicit --flow=new/N only).
            `parents` (a set) collects those upstream members."""
            if not _fl or _fl == ['none']:
                return set()
            ran_in = {f for (i, ev) in launches.get(m, ()) if i < _tg.idx
                      for f in (ev.get('flows') or ())}
            out: Set[int] = set()
            seen_up, todo = set(), [u for (u, _o) in _tg.in_edges[m]]
            while todo:
                u = todo.pop()
                if u in seen_up:
                    continue
                seen_up.add(u)
                bu = _tg.before.get(u)
                if _tg.start[u] and bu is not None:
                    old = {f for f in bu['flows'] if f in ran_in
                           and not in_flow(_fl, [f], _tg.seen_flows,
                                           _tg.new_flows)}
                    out |= old
                    if old and parents is not None:
                        parents.add(u)
                todo += [x for (x, _o) in _tg.in_edges[u]]
            return out

        for m in tg.group:
            b = tg.before.get(m)
            a = tg.after.get(m)
            start = tg.start[m]
            live = b is not None and b['status'] in LIVE
            w_end = window_end(m)
            # (the jobs-submit of a job that became preparing before the
            # command is the old job - of a member that was preparing when
            # the command came, whether or not the command then removed the
            # proxy, or the orphan of a proxy that an earlier trigger removed
            # - and not a run caused by this trigger.  The re-spawned proxy
            # may be given the old job's submit number again: its launch
            # counts, it was prepared after the command.)
            win = [(i, ev) for (i, ev) in launches.get(m, ())
                   if tg.idx < i < w_end
                   and not predates(m, ev['submit_num'], i, tg)]
            mine = [(i, ev) for (i, ev) in win
                    if in_flow(fl, ev.get('flows') or [], tg.seen_flows,
                               tg.new_flows)]
            # member state classes
            if b is None:
                done_before = any(i < tg.idx for (i, _e) in launches.get(m, ()))
                classes.add('member:finished-gone' if done_before
                            else 'member:not-yet-spawned')
            else:
                classes.add('member:' + b['status'])
                if b['held']:
                    classes.add('member:held')
                if b['queued']:
                    classes.add('member:queued')
                if b['runahead']:
                    classes.add('member:runahead')
            classes.add('role:start' if start else 'role:in-group-child')
            if start and b is not None and b['status'] in FINAL:
                # retained in the pool in a final state (incomplete)
                classes.add('role:retained-final-start')
                if any(u == m and set(expand_out(o_)) & set(b['outputs'])
                       for x in tg.group for (u, o_) in tg.in_edges[x]):
                    classes.add('retained-final-start-with-child-on-its-'
                                'completed-output')
            # an active member none of whose flows is the triggered one
            # (default flow = flows of the active members: only a no-flow
            # proxy can be outside it)
            off_flow = is_off(m)
            if off_flow:
                classes.add('member:active-in-other-flow')
            # ... or downstream (inside the group) of such a member that has
            # in-group prerequisites itself: that one is not re-run in the
            # triggered flow, so this one is not reached in it either
            seen_up, todo = set(), [u for (u, _o) in tg.in_edges[m]]
            while todo and not off_flow:
                u = todo.pop()
                if u in seen_up:
                    continue
                seen_up.add(u)
                if is_off(u) and not tg.start[u]:
                    off_flow = True
                todo += [x for (x, _o) in tg.in_edges[u]]
            if start and live:
                classes.add('role:live-start')

            # (A) at most once.  Only launches that no other flow can
            # account for are counted: a proxy of another flow that merges
            # with the triggered one runs on that flow's behalf.
            own = [(i, ev) for (i, ev) in win if only_flow(
                fl, ev.get('flows') or [], tg.seen_flows, single_flow,
                tg.new_flows)]
            # an earlier trigger of the same member that has not led to a
            # launch yet is still owed one ("once per trigger")
            owed = credit.get(m, 0) + 1
            credit[m] = max(0, owed - len(own))
            # the launch an earlier trigger of m still owes is not this
            # trigger's, if this command found the proxy triggered and
            # waiting for its job (manual, not yet preparing) and left it in
            # the pool: the statement does not say that a later trigger
            # revokes it
            pending = int(
                owed > 1 and b is not None and b['status'] == 'waiting'
                and bool(b['manual'])
                and not any(tg.ev['n0'] <= j < tg.idx
                            for j in removes.get(m, ())))
            if len(own) > owed:
                viol.append(Violation(
                    'C28:member-launched-more-often-than-triggered',
                    f'{m}: launches '
                    + ', '.join(f'trace {i} submit {ev["submit_num"]} flows '
                                f'{ev.get("flows")}' for (i, ev) in own)
                    + f' after trigger of {tg.group} --flow={fl}; triggers '
                    f'of this member still owed a launch: {owed}'))
            if start and live:
                # flows a resubmission by this trigger could carry: the
                # member's own and the triggered ones (default, documented:
                # "the existing flow numbers of [the group's] active tasks" -
                # this member is one).  A later natural run of the member
                # in another flow is not a resubmission.
                if fl:
                    tflows = {
                        f for (_i, ev) in win for f in (ev.get('flows') or ())
                        if in_flow(fl, [f], tg.seen_flows,
                                   tg.new_flows)}
                else:
                    tflows = {f for x in gset if x in tg.before
                              for f in tg.before[x]['flows']}
                mayflow = set(b['flows']) | tflows
                later = [(i, ev) for (i, ev) in win
                         if ev['submit_num'] > b['submit_num']
                         and set(ev.get('flows') or ()) <= mayflow]
                # "left to finish rather than resubmitted": if the command
                # did not touch the member's status and its live job came to
                # an end by itself before the next job was prepared, it was
                # left to finish; what re-queued it afterwards (a retained
                # incomplete task "absorbed" by a flow that reaches it) is
                # not a resubmission by the trigger
                reset_by_cmd = any(
                    tg.ev['n0'] <= j < tg.idx
                    and e['after'][0] != e['before'][0]
                    for (j, e) in states.get(m, ()))

                def left_to_finish(i, ev, _m=m, _tg=tg):
                    at = [p for p in preps.get((_m, ev['submit_num']), ())
                          if p <= i]
                    return bool(at) and any(
                        _tg.idx < j < at[-1] and e['before'][0] in LIVE
                        and e['after'][0] in FINAL
                        for (j, e) in states.get(_m, ()))

                if later and not reset_by_cmd and all(
                        left_to_finish(i, ev) for (i, ev) in later):
                    classes.add('live-start-member-rerun-after-its-job-ended')
                    later = []
                later = [ev for (_i, ev) in later]
                if later:
                    viol.append(Violation(
                        'C28:live-group-start-member-resubmitted',
                        f'{m} was {b["status"]} (submit {b["submit_num"]}, '
                        f'flows {b["flows"]}) when {tg.group} was triggered '
                        f'--flow={fl}; it was launched again with submit '
                        f'{later[0]["submit_num"]} flows '
                        f'{later[0].get("flows")}'))

            # (C) order: in-group prerequisites first
            if not start:
                if pending and mine:
                    classes.add('launch-owed-to-earlier-trigger')
                for (i, ev) in mine[pending:]:
                    if not expr_true(m, i):
                        missing = sorted({
                            f'{u}:{o}' for (u, o) in tg.in_edges[m]
                            if not any(completed(u, x, i)
                                       for x in expand_out(o))})
                        parents_live = all(
                            tg.start[u] and tg.before.get(u) is not None
                            and tg.before[u]['status'] in LIVE
                            for u in {x.rsplit(':', 1)[0] for x in missing})
                        sig = 'C28:member-launched-before-in-group-prerequisite'
                        if off_flow:
                            sig += ':active-member-not-in-triggered-flow'
                        elif parents_live:
                            sig += ':parent-is-live-group-start-member'
                        viol.append(Violation(
                            sig,
                            f'{m} launched (submit {ev["submit_num"]}, flows '
                            f'{ev.get("flows")}) at iteration {ev["it"]} after '
                            f'trigger of {tg.group} --flow={fl}, but its '
                            f'in-group prerequisites {missing} had not been '
                            f'completed since the trigger (scheduler view at '
                            f'launch: {ev.get("sat")})'))
                        break

            # queueing of group-start members by the command
            ignored_none = (fl == ['none'] and b is not None and b['flows'])
            if (start and not live and not ignored_none and a is not None
                    and a['queued']):
                qname, limit = qof[inst_of(m)[0]]
                members = {t for t in spec['tasks'] if qof[t][0] == qname}
                busy = set()
                for snap, prep in ((tg.before, tg.prep_before),
                                   (tg.after, tg.prep_after)):
                    for id2, t2 in snap.items():
                        # (a member triggered a moment ago and still waiting
                        # on job preparation counts itself as active)
                        if t2['name'] in members and (
                                t2['status'] in LIVE or id2 in prep):
                            busy.add(id2)
                busy.update(x for x in gset
                            if x != m and inst_of(x)[0] in members)
                if b is not None and b['queued']:
                    viol.append(Violation(
                        'C28:queued-group-start-member-left-queued',
                        f'{m} was queued when {tg.group} was triggered and '
                        f'is still queued after the command'))
                elif not limit or len(busy) < limit:
                    viol.append(Violation(
                        'C28:group-start-member-queued-but-queue-not-full',
                        f'{m} was queued by the trigger of {tg.group}; queue '
                        f'{qname} limit {limit}, possibly active members '
                        f'{sorted(busy)}'))
                else:
                    classes.add('start-member-queued-queue-full')

            # liveness, last trigger only
            if not last or crashed or sc.inconclusive:
                continue
            fin = None
            for t2 in final_pool or ():
                if f'{t2["cycle"]}/{t2["name"]}' == m:
                    fin = t2
            if start:
                if live or ignored_none:
                    continue
                # (a waiting no-flow proxy may be merged into a flow that
                # reaches it before it is launched)
                if mine or (fl == ['none'] and win):
                    classes.add('start-member-ran')
                    if b is not None and b['held'] or (
                            a is not None and a['held']):
                        classes.add('start-member-ran-despite-hold')
                    if tg.paused and paused_end:
                        classes.add('start-member-ran-while-paused')
                    continue
                if a is not None and a['queued'] and (
                        paused_end or (fin is not None and fin['held'])):
                    classes.add('start-member-queued-then-blocked')
                    continue
                where = ('not in the pool' if fin is None else
                         f'in the pool as {fin["status"]} held={fin["held"]} '
                         f'queued={fin["queued"]} runahead={fin["runahead"]} '
                         f'flows={fin["flows"]} sat={fin["sat"]}')
                other = [(ev['submit_num'], ev.get('flows'))
                         for (_i, ev) in win]
                viol.append(Violation(
                    'C28:group-start-member-not-run',
                    f'{m} (before the command: '
                    f'{b["status"] if b else "not in pool"}) has no in-group '
                    f'prerequisites in {tg.group} --flow={fl} (paused at '
                    f'trigger: {tg.paused}, at end: {paused_end}) but was '
                    f'not launched in the triggered flow by the end of the '
                    f'drain; it is {where}; other launches since: {other}'))
            else:
                if fl == ['none']:
                    continue
                if default_is_no_flow(m) and not mine:
                    # as --flow=none: a no-flow task does not flow on, so
                    # its in-group children cannot follow
                    classes.add('in-group-child-of-no-flow-group')
                    continue
                if mine:
                    classes.add('in-group-child-ran')
                    continue
                if not expr_true(m, len(trace)):
                    classes.add('in-group-child-prerequisites-never-met')
                    continue
                if paused_end:
                    classes.add('in-group-child-blocked:paused')
                    continue
                if fin is not None and fin['status'] == 'waiting' and (
                        fin['held'] or fin['queued'] or fin['runahead']):
                    classes.add('in-group-child-blocked:held-queued-runahead')
                    continue
                # outputs credited to the pooled proxy of m since the
                # trigger that come from a job prepared before the trigger
                orphan_msgs = sorted({
                    ev['out'] for (i, ev) in outs.get(m, ())
                    if i > tg.idx and ev['pooled']
                    and ev['msn'] in (None, ev['sn'])
                    and predates(m, ev['sn'], i, tg)})
                if not expr_true(m, len(trace), fresh_only=True):
                    # root cause apart: true only thanks to a custom output
                    # re-emitted by a re-run group-start member whose
                    # retained proxy already had it (no children spawned)
                    sig = ('C28:member-not-run:parent-custom-output-'
                           'already-complete-on-retained-proxy')
                    where = ('not in the pool' if fin is None else
                             f'in the pool as {fin["status"]} '
                             f'sat={fin["sat"]}')
                elif orphan_msgs:
                    # root cause apart: the member was removed with a live
                    # job (by this trigger or an earlier one); that job's
                    # messages were taken for the re-spawned proxy (same
                    # submit number)
                    sig = ('C28:member-not-run:'
                           'completed-by-messages-of-orphaned-job')
                    where = (('not in the pool' if fin is None else
                              f'in the pool as {fin["status"]}')
                             + f'; outputs processed for it since the '
                             f'trigger without a launch: {orphan_msgs}')
                elif fin is None:
                    sig = 'C28:member-not-run:not-in-pool'
                    where = 'not in the pool'
                    if off_flow:
                        sig = ('C28:member-not-run:'
                               'active-member-not-in-triggered-flow')
                    elif b is None and merged_old_flows(m):
                        # root cause apart: --flow=new/N, the member is not
                        # in the pool but ran before in flow F; an upstream
                        # group-start member is pooled in F: the trigger
                        # merges the triggered flow into it, its outputs
                        # spawn children in F + triggered, and the member's
                        # history in F (the trigger erased only that of the
                        # triggered flow) stops the spawn
                        sig = ('C28:member-not-run:start-parent-merged-with-'
                               'flow-in-which-member-already-ran')
                        where = (f'not in the pool; it ran before in flows '
                                 f'{sorted(merged_old_flows(m))} that a pooled '
                                 f'group-start member upstream also carries')
                elif off_flow:
                    sig = ('C28:member-not-run:'
                           'active-member-not-in-triggered-flow')
                    where = (f'in the pool as {fin["status"]} flows='
                             f'{fin["flows"]} sat={fin["sat"]}')
                else:
                    sig = ('C28:member-not-run:ready-but-idle'
                           if fin['prereqs_all'] else
                           'C28:member-not-run:prerequisites-unsatisfied')
                    where = (f'in the pool as {fin["status"]} flows='
                             f'{fin["flows"]} sat={fin["sat"]}')
                    mpar: Set[str] = set()
                    unsat = {k.rsplit(':', 1)[0]
                             for k, v in (fin['sat'] or {}).items() if not v}
                    if (b is None and not fin['prereqs_all']
                            and fin['status'] == 'waiting'
                            and merged_old_flows(m, parents=mpar)
                            and unsat and unsat <= mpar):
                        # same root cause as below (spawn by the merged
                        # start parent refused); a parent in the triggered
                        # flow alone spawned the member later, so that it
                        # sits in the pool with exactly the merged parents'
                        # outputs missing
                        sig = ('C28:member-not-run:start-parent-merged-with-'
                               'flow-in-which-member-already-ran')
                viol.append(Violation(
                    sig,
                    f'{m} (before the command: '
                    f'{b["status"] + " flows " + str(b["flows"]) if b else "not in pool"}'
                    f') in group {tg.group} --flow={fl}: its in-group '
                    f'prerequisites {tg.in_edges[m]} were all completed '
                    f'after the trigger, the workflow is not paused, yet it '
                    f'was not launched in the triggered flow; it is {where}'))
    return nontrivial


def run_shard(ctx: Ctx):
    hyp_run(ctx, cases(), check_case, ctx.share(BUDGET[ctx.tier]))
