"""C32 Clock expiry only expires eligible tasks."""
from __future__ import annotations

from hypothesis import strategies as st

from vf.core import CaseResult, Ctx, Violation, hyp_run
from vf.gen.wfspec import atoms_of, render_flow, wfspecs
from vf.sim.drive import SCase, outcome_maps, run_async
from vf.sim.model import Model, atom_target, valid_points

PROP_ID = 'C32'
LEVEL = 'exploration'
BUDGET = {'quick': 400, 'thorough': 10000}
MANIFEST = {
    'engine': 'S',
    'technique': 'PBT on the stepped scheduler with a virtual wall clock: '
                 'every transition to expired checked for eligibility, '
                 'expiry time, later job launches and spawned children',
}
RULE = (
    'Generated datetime workflow (point n = 2000-01-0n) with 1-3 recurrences, '
    '1-3 clock-expire tasks with offsets from -P1D to +P2D, 0-3 expire '
    'children (x:expired? => c, also with a -P1D offset, or-ed with x '
    'succeeded, and-ed with another task), optional runahead limit P0-P3, '
    'in 5 of 6 cases limited internal queues (default queue with limit 1-2 '
    'and/or a named queue with limit 1-2 holding clock-expire tasks and up '
    'to 3 others, so that a triggered task can be parked waiting(queued) '
    'behind active tasks while the clock moves on), '
    'execution retries with delays PT0S..P3D and failing first jobs (tasks '
    'waiting again), virtual clock started between 2 days before and 2 days '
    'after the expiry time of one clock-expire instance, schedules of '
    'main-loop iterations, command returns, job steps, message deliveries, '
    'clock ticks of 1 s .. 2 days '
    'and manual triggers of pooled / finished / unspawned instances (any '
    'task, or aimed at clock-expire instances: pooled not-active ones or any '
    'model instance), then a '
    'fair drain, then 1-3 further (tick, drain) rounds.  Oracle on the '
    'trace: every transition to expired is of a task with a clock-expire '
    'offset that was waiting, was not manually triggered (no accepted '
    'trigger command naming it since it last entered job preparation) and '
    'the virtual time is >= point + offset; no job of an instance is '
    'launched after its expiry unless a later trigger command names it; the '
    'tasks added to the pool while the expired output is processed are '
    'model expire children, and every model expire child is in the pool '
    'afterwards or was spawned before.  Non-trivial = at least one expiry '
    'happened and the eligibility rule discriminated in the same case '
    '(another clock-expire instance ran a job, or was active / manually '
    'triggered / parked in a full queue after a trigger past its expiry '
    'time); distinct by the case.')
ASSUMPTIONS = [
    'Manually triggered = a trigger command naming the instance was '
    'accepted while the instance was not preparing/submitted/running '
    '(whether the trigger runs it at once or its full limited queue parks '
    'it as waiting(queued)), and '
    'the instance has not entered job preparation since (the scheduler '
    'clears its own flag at that point, so a retry of a triggered task may '
    'expire).',
    'Expiry events are the monitored status changes to expired of pooled '
    'tasks made through process_message (the data store resets ghost '
    'proxies of finished tasks to their DB status; those are not tasks); '
    'cylc set --out=expired, expire (suicide) triggers, reload and restart '
    'are outside the generated domain.',
    'Expiry time = cycle point + offset computed by the harness '
    '(2000-01-01T00Z + (n-1) days + a table of offset strings); UTC mode.',
    '"Spawns exactly its expire children": adds to the pool between the '
    'status change and the end of expired-message processing, before the '
    'removal of the expired task (the removal of a runahead-limited '
    'parentless task spawns its next instance by design); a child is not '
    'demanded again if it was spawned earlier.',
    'No launch after expiry is checked at jobs-submit launches on the '
    'virtual cluster; a trigger command naming the instance re-arms it.',
]

EPOCH0 = 946684800            # 2000-01-01T00:00:00Z
DAY = 86400
OFFSETS = {
    'PT0S': 0, 'PT1M': 60, 'PT1H': 3600, '-PT1H': -3600, 'PT12H': 43200,
    '-PT12H': -43200, 'P1D': DAY, '-P1D': -DAY, 'PT36H': 129600,
    'P2D': 2 * DAY,
}
TICKS = [1, 60, 1800, 3599, 3600, 3601, 7200, 43200, DAY, DAY + 1, 2 * DAY,
         30]
# start of the virtual clock relative to the expiry time of one instance
CLOCK0 = [-2 * DAY, -DAY, -3601, -3600, -60, -1, 0, 1, 60, 3600, DAY,
          2 * DAY]
RETRY_DELAYS = ['PT0S', 'PT10M', 'PT2H', 'P1D']
ACTIVE = ('preparing', 'submitted', 'running')


def _exp_atom(t, off=None):
    return {'t': t, 'off': off, 'abs': None, 'out': 'expired',
            'implicit': False, 'longform': False}


def _succ_atom(t):
    return {'t': t, 'off': None, 'abs': None, 'out': 'succeeded',
            'implicit': True, 'longform': False}


@st.composite
def cases(draw):
    spec = draw(wfspecs({'max_tasks': 5, 'max_fcp': 5, 'abs': False,
                         'future': False, 'datetime': False}))
    spec['mode'] = 'datetime'
    # big clock steps must not trip the (default PT1H) stall timeout abort
    spec['extra']['scheduler_events'] = {
        'stall timeout': 'P3000D', 'abort on stall timeout': 'False'}
    base_tasks = list(spec['tasks'])
    homed = [t for t, pts in valid_points(spec).items() if pts] or base_tasks
    k = draw(st.integers(1, min(3, len(homed))))
    ce_tasks = draw(st.lists(st.sampled_from(homed), min_size=k,
                             max_size=k, unique=True))
    spec['extra']['clock_expire'] = {
        t: draw(st.sampled_from(sorted(OFFSETS))) for t in ce_tasks}
    # expire children: new tasks (highest rank, so no same-cycle cycles)
    n_child = 0
    for x in ce_tasks:
        if draw(st.integers(0, 3)) == 0:
            continue
        secs = [i for i, sec in enumerate(spec['sections'])
                if any(x in ln['rhs'] for ln in sec['lines'])]
        member = bool(secs)
        if not secs:
            secs = list(range(len(spec['sections'])))
        sec = spec['sections'][draw(st.sampled_from(secs))]
        child = f'xc{n_child}'
        n_child += 1
        spec['tasks'].append(child)
        spec['opt'][child] = {'succ': False, 'submit': False,
                              'fail_required': False, 'custom': {}}
        # marks "expired" optional for the renderer (x:expired?)
        spec['opt'][x].setdefault('custom', {})['expired'] = True
        kind = draw(st.integers(0, 4))
        members = sorted({t for ln in sec['lines'] for t in ln['rhs']}
                         - {x, child})
        if kind == 1 and sec['rec']['kind'] == 'P' and member:
            lhs = _exp_atom(x, -sec['rec']['step'])
        elif kind == 2 and not spec['opt'][x].get('fail_required'):
            lhs = {'op': '|', 'args': [_exp_atom(x), _succ_atom(x)]}
        elif kind == 3 and members:
            u = draw(st.sampled_from(members))
            lhs = {'op': '&', 'args': [_exp_atom(x), _succ_atom(u)]}
        else:
            lhs = _exp_atom(x)
        sec['lines'].append({'lhs': lhs, 'rhs': [child]})
    if draw(st.booleans()):
        spec['extra']['runahead'] = 'P%d' % draw(st.integers(0, 3))
    # limited internal queues: a triggered task may be parked (waiting,
    # queued) behind active tasks for any length of virtual time
    qmode = draw(st.integers(0, 5))
    queues = []
    if qmode in (1, 2, 3):
        queues.append({'name': 'default', 'limit': draw(st.integers(1, 2))})
    if qmode in (3, 4, 5):
        others = [t for t in spec['tasks'] if t not in ce_tasks]
        members = draw(st.lists(st.sampled_from(ce_tasks), min_size=1,
                                max_size=len(ce_tasks), unique=True))
        if others:
            members += draw(st.lists(st.sampled_from(others), max_size=3,
                                     unique=True))
        queues.append({'name': 'qlim', 'limit': draw(st.integers(1, 2)),
                       'members': members})
    if queues:
        spec['extra']['queues'] = queues
    for t in base_tasks:
        if draw(st.integers(0, 2)) == 0:
            n = draw(st.integers(1, 2))
            spec['retries'][t] = {
                'exec': n, 'exec_delays': [
                    draw(st.sampled_from(RETRY_DELAYS)) for _ in range(n)]}
    outcomes = draw(outcome_maps(spec, max_subs=2))
    insts = [(t, p) for (t, p) in Model(spec).instances() if t in ce_tasks]
    if insts and draw(st.booleans()):
        # a clock-expire instance that fails once and waits for its retry
        t, p = draw(st.sampled_from(insts))
        spec['retries'][t] = {'exec': 1, 'exec_delays': [
            draw(st.sampled_from(['PT10M', 'PT2H', 'P1D', 'P3D']))]}
        outcomes[f'{p}/{t}'] = [{'final': 'failed'}, {'final': None}]
    sched = draw(st.lists(st.tuples(
        st.sampled_from(['loop', 'loop', 'loop', 'ret', 'ret', 'adv', 'del',
                         'del', 'tk', 'tk', 'trigger', 'trigger', 'trigce',
                         'trigce']),
        st.integers(0, 15)).map(list), max_size=50))
    tail = draw(st.lists(st.sampled_from([3600, 43200, DAY, 3 * DAY]),
                         min_size=1, max_size=3))
    clock0 = draw(st.sampled_from(CLOCK0))
    if insts:
        t, p = draw(st.sampled_from(insts))
        clock0 += (p - 1) * DAY + OFFSETS[spec['extra']['clock_expire'][t]]
    return {'spec': spec, 'outcomes': outcomes, 'schedule': sched,
            'clock0': clock0, 'tail': tail,
            'short_qualifier': draw(st.booleans())}


def expire_children(model, x, p):
    """Model instances with an atom x[..]:expired resolving to (x, p)."""
    out = set()
    for c, lines in model.lines.items():
        for pts, tree in lines:
            for a in atoms_of(tree):
                if a['t'] != x or a['out'] != 'expired':
                    continue
                for q in pts:
                    if atom_target(a, q) == p and model.is_valid(c, q):
                        out.add((c, q))
    return out


async def _trigger_ce(sc, n):
    """Trigger a clock-expire instance: even n a pooled one that is not
    active (if any), odd n any model instance (finished / not yet spawned /
    beyond the runahead limit included)."""
    from cylc.flow import commands
    drv, sim = sc.drv, sc.sim
    ce = drv.spec['extra']['clock_expire']
    ids = [i for i in drv.instance_ids() if i.split('/')[1] in ce]
    if n % 2 == 0:
        pooled = [i for i in drv.pool_ids('waiting', 'failed',
                                          'submit-failed', 'succeeded',
                                          'expired')
                  if i.split('/')[1] in ce]
        ids = pooled or ids
    if not ids:
        return
    id_ = ids[(n // 2) % len(ids)]
    await drv._run('trigger', commands.force_trigger_tasks(
        sim.schd, [id_], []), task=id_, flow=[])


def check_case(case, ctx: Ctx) -> CaseResult:
    return run_async(_check(case, ctx))


async def _check(case, ctx: Ctx) -> CaseResult:
    spec = case['spec']
    flow = render_flow(spec)
    if case.get('short_qualifier'):
        flow = flow.replace(':expired?', ':expire?')
    sc = SCase(case, ctx, flow_text=flow)
    sim = sc.sim
    t_start = EPOCH0 + case['clock0']
    sim.clock.set(float(t_start))
    # virtual time of every monitored event
    sim.hooks.append(lambda _kind, data: data.__setitem__('vt', sim.clock.now))
    async with sc:
        if sc.rejected:
            return CaseResult(sc.crash_violations('C32'), False,
                              ['rejected:' + sc.rejected])
        # tasks loaded at start-up enter the pool before the monitors exist
        initial = {(t['cycle'], t['name']): t['status']
                   for t in sim.pool_snapshot()}
        for op, n in case['schedule']:
            if not sim.running:
                break
            if op == 'tk':
                sim.clock.advance(TICKS[n % len(TICKS)])
            elif op == 'trigce':
                await _trigger_ce(sc, n)
            else:
                await sc.drv.step(op, n)
        await sc.drain()
        for dt in case.get('tail') or ():
            if not sim.running:
                break
            sim.clock.advance(dt)
            await sc.drain()
        viol = sc.crash_violations('C32')
        res = _oracle(case, sc, viol, t_start, initial)
        res.inconclusive = sc.inconclusive
        res.info = {'flow': flow}
        return res


def _oracle(case, sc, viol, t_start, initial) -> CaseResult:
    spec = case['spec']
    sim, to_int, model = sc.sim, sc.drv.to_int, sc.model
    ce = spec['extra']['clock_expire']

    def exp_time(name, cyc):
        p = to_int.get(cyc)
        if name not in ce or p is None:
            return None
        return EPOCH0 + (p - 1) * DAY + OFFSETS[ce[name]]

    trace = sim.trace
    status = dict(initial)     # (cyc, name) -> status
    in_pool = set(initial)
    ever_added = set(initial)
    manual_pending = set()
    parked = set()         # clock-expire tasks a trigger parked in a queue
    expired_at = {}        # (cyc, name) -> trace index of the expiry
    launched_ce = set()
    classes = set()
    n_expired = 0
    discriminated = False
    t_end = t_start
    for i, ev in enumerate(trace):
        k = ev['k']
        t_end = max(t_end, ev.get('vt', t_end))
        if k == 'add':
            key = (ev['cycle'], ev['name'])
            in_pool.add(key)
            ever_added.add(key)
            status[key] = ev['status']
        elif k == 'remove':
            in_pool.discard((ev['cycle'], ev['name']))
        elif k == 'cmd' and ev['cmd'] == 'trigger' and not ev['err']:
            cyc, name = ev['task'].split('/')
            key = (cyc, name)
            before = [t for t in ev['before']
                      if (t['cycle'], t['name']) == key]
            if before and before[0]['status'] in ACTIVE:
                continue          # "job already in process - ignoring"
            manual_pending.add(key)
            expired_at.pop(key, None)
            classes.add('manual-trigger')
            et = exp_time(name, cyc)
            if et is not None and ev['vt'] >= et:
                classes.add('manual-trigger-past-expiry')
                discriminated = True
            after = [t for t in ev['after']
                     if (t['cycle'], t['name']) == key]
            if (after and after[0]['status'] == 'waiting'
                    and after[0]['queued']
                    and not (before and before[0]['queued'])):
                # the trigger found its queue full: parked, not run now
                classes.add('trigger-parked-in-full-queue')
                if et is not None:
                    classes.add('clock-expire-trigger-parked-in-full-queue')
                    parked.add(key)
        elif k == 'launch':
            key = (ev['cycle'], ev['name'])
            if ev['name'] in ce:
                launched_ce.add(key)
            if key in expired_at:
                viol.append(Violation(
                    'C32:job-submitted-after-expiry',
                    f'{key[0]}/{key[1]} job {ev["submit_num"]:02d} launched '
                    f'at iteration {ev["it"]} after the task expired at '
                    f'iteration {trace[expired_at[key]]["it"]} (no trigger '
                    f'command in between)'))
        elif k == 'iter-end':
            for key in parked & manual_pending & in_pool:
                # a triggered clock-expire task still waiting in its full
                # queue at the end of an iteration past its expiry time
                if (status.get(key) == 'waiting'
                        and ev['vt'] >= exp_time(key[1], key[0])):
                    classes.add('parked-manual-trigger-past-expiry')
                    discriminated = True
            for key, s in status.items():
                if s in ACTIVE and key in in_pool:
                    et = exp_time(key[1], key[0])
                    if et is not None and ev['vt'] >= et:
                        classes.add('active-past-expiry')
                        discriminated = True
        elif k == 'state':
            key = (ev['cycle'], ev['name'])
            old, new = ev['before'][0], ev['after'][0]
            # The data store builds ghost proxies of finished tasks and
            # resets them to their DB status (no call site in the scheduler's
            # message / pool code): those are not pool tasks.
            ghost = key not in in_pool or not ev['site'] or (
                new == 'expired' and 'process_message' not in ev['site'])
            if ghost:
                if key in in_pool:
                    classes.add('ghost-proxy-of-pooled-task')
                continue
            if new == 'expired' and old != 'expired':
                # tasks added while the expired output is processed: up to
                # the removal of the expired task (complete) or the end of
                # its expired message (retained)
                j = i + 1
                adds = []
                while j < len(trace):
                    e2 = trace[j]
                    if e2['k'] == 'iter-end' or (
                            e2['k'] in ('pm', 'remove')
                            and (e2['cycle'], e2['name']) == key
                            and e2.get('msg', 'expired') == 'expired'):
                        break
                    if e2['k'] == 'add':
                        adds.append((e2['cycle'], e2['name']))
                    j += 1
            status[key] = new
            if new == 'preparing' and old != 'preparing':
                manual_pending.discard(key)
            if new != 'expired' or old == 'expired':
                continue
            # ---- an expiry event ----
            n_expired += 1
            ident = f'{key[0]}/{key[1]}'
            et = exp_time(key[1], key[0])
            if et is None:
                viol.append(Violation(
                    'C32:expired-without-clock-expire-offset',
                    f'{ident} expired at iteration {ev["it"]} but has no '
                    f'clock-expire offset ({ce})'))
            elif ev['vt'] < et:
                viol.append(Violation(
                    'C32:expired-before-expiry-time',
                    f'{ident} expired at virtual time {ev["vt"]:.6f}, '
                    f'{et - ev["vt"]:.6f} s before its expiry time {et} '
                    f'(offset {ce[key[1]]})'))
            if old != 'waiting':
                viol.append(Violation(
                    'C32:expired-from-non-waiting-state',
                    f'{ident} expired at iteration {ev["it"]} from status '
                    f'{old} (site {ev["site"]})'))
            if key in manual_pending:
                viol.append(Violation(
                    'C32:manually-triggered-task-expired',
                    f'{ident} expired at iteration {ev["it"]} although a '
                    f'trigger command named it and it has not entered job '
                    f'preparation since'))
            expired_at[key] = i
            if ev['before'][2]:
                classes.add('expired-while-queued')
            if ev['before'][3]:
                classes.add('expired-while-runahead-limited')
            if ev['submit_num'] > 0:
                classes.add('expired-while-waiting-for-retry')
            if et is not None and t_start < et:
                classes.add('expired-after-clock-crossed-expiry-time')
            # children spawned by the expired output (adds, see above)
            p = to_int.get(key[0])
            kids = {(sc.drv.to_str[q], c)
                    for (c, q) in expire_children(model, key[1], p)}
            if kids:
                classes.add('has-expire-children')
            for a in adds:
                if a not in kids:
                    viol.append(Violation(
                        'C32:expiry-spawned-non-child',
                        f'{ident} expired and {a[0]}/{a[1]} was added to '
                        f'the pool while its expired output was processed; '
                        f'model expire children: {sorted(kids)}'))
            for kid in sorted(kids):
                if kid in adds:
                    classes.add('expire-child-spawned')
                elif kid not in in_pool and kid not in ever_added:
                    viol.append(Violation(
                        'C32:expire-child-not-spawned',
                        f'{ident} expired but its expire child '
                        f'{kid[0]}/{kid[1]} was not spawned (added by the '
                        f'expiry: {adds})'))
    if spec['extra'].get('queues'):
        classes.add('limited-queue')
    if n_expired:
        classes.add('expired-some')
    if launched_ce:
        classes.add('clock-expire-instance-ran')
        discriminated = True
    if any(ev['k'] == 'state' and ev['after'][0] == 'waiting'
           and ev['before'][0] in ('running', 'failed', 'submitted')
           for ev in trace):
        classes.add('retry-waiting')
    # did the clock cross some instance's expiry time during the run?
    for (t, p) in model.instances():
        if t in ce:
            et = EPOCH0 + (p - 1) * DAY + OFFSETS[ce[t]]
            if t_start < et <= t_end:
                classes.add('clock-crossed-an-expiry-time')
    uniq = {}
    for v in viol:
        uniq.setdefault(v.sig, v)
    nontrivial = bool(n_expired and discriminated)
    if nontrivial:
        classes.add('nontrivial')
    return CaseResult(list(uniq.values()), nontrivial, sorted(classes))


def run_shard(ctx: Ctx):
    hyp_run(ctx, cases(), check_case, ctx.share(BUDGET[ctx.tier]))
