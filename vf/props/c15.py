"""C15 Family triggers expand to all/any of the members' outputs.

Two drivers over the same `check_case`:

  * exhaustive core: 14 family qualifiers x family size 1-4 x flat/nested x
    9 positions (left alone / in AND / in OR / nested; right plain / right
    qualified / lone / mid-chain / two families) x offset x '?' (where legal);
  * Hypothesis mixtures: several chains, two families (one nested in the
    other), plain tasks with their own qualifiers, random and/or trees.

Oracles (both on every case):

  model        the parsed left-hand expressions of every right-hand task are
               truth-table-equal to the AST with FAM:q-all := AND over members
               of member:output(q), FAM:q-any := OR (finish = succeeded|failed
               per member); a right-hand family gives the trigger and the
               declared optionality to every member;
  metamorphic  GraphParser(family_map) on the family form == GraphParser() on
               the hand-expanded member form (truth tables, nodes, optionality).

1 case in 20 (by hash) is also loaded through WorkflowConfig with a real
[runtime] inheritance tree and checked on TaskDef dependencies / outputs.
"""
from __future__ import annotations

import itertools
import json
import re

from hypothesis import strategies as st

from vf.core import CaseResult, Ctx, Violation, hyp_run, exc_sig, jhash
from vf.gen import graphast as G
from vf.props import c14 as B

PROP_ID = 'C15'
LEVEL = 'exploration'
BUDGET = {'quick': 2000, 'thorough': 50000}     # Hypothesis part
RULE = (
    'Part 1 (exhaustive, every run): the product of 14 family qualifiers x '
    'family size 1-4 x flat/nested family x 9 positions x offset (left '
    'positions) x optional mark (where the qualifier admits it), 1767 '
    'cases.  Part 2 (Hypothesis): 1-3 chains of 1-3 nodes over 2 families '
    '(SUB nested in FAM, 1-4 leaf members) and 3 plain tasks, family atoms '
    'with any qualifier consistent with a drawn per-case optionality profile, '
    'random and/or trees with parentheses and offsets.  Each case is parsed '
    'with GraphParser(family_map) and compared (truth tables per right-hand '
    'task, node set, output optionality) with the member-level model and with '
    'GraphParser() on the hand-expanded member form; 1 in 20 also through '
    'WorkflowConfig.  Non-trivial = a family with >= 2 members is used; '
    'distinct = by (families, chains).')
ASSUMPTIONS = [
    'Member output of a family qualifier: succeed->succeeded, fail->failed, '
    'finish->succeeded|failed, start->started, submit->submitted, '
    'submit-fail->submit-failed, expire->expired (statement + '
    'task_qualifiers.py); -all = AND over all leaf member tasks, -any = OR.',
    'Family members = leaf tasks below the family, as WorkflowConfig builds '
    'family_map (sorted); at parser level the same map is passed in.',
    '"Declared optionality" is compared as the optional flag per (member, '
    'output); the internal fixed/default flags of task_output_opt are not.',
    'Explicit member-level overrides of family defaults are not generated.',
]
MANIFEST = {
    'engine': 'P',
    'technique': 'exhaustive qualifier x shape x position product + Hypothesis '
                 'mixtures; member-level truth-table model and family-vs-'
                 'members metamorphic check',
}

BASES = ['succeed', 'fail', 'finish', 'start', 'submit', 'submit-fail',
         'expire']
QUALS = [f'{b}-{m}' for b in BASES for m in ('all', 'any')]
MEMBER_OUT = {'succeed': 'succeeded', 'fail': 'failed', 'finish': 'finished',
              'start': 'started', 'submit': 'submitted',
              'submit-fail': 'submit-failed', 'expire': 'expired'}
MUST_OPT = {'submit-fail', 'expire'}
NEVER_OPT = {'finish'}
POSITIONS = ['left-alone', 'left-and', 'left-or', 'left-nested',
             'right-plain', 'right-qualified', 'lone', 'mid-chain',
             'two-families']


def split_q(q):
    base, mode = q.rsplit('-', 1)
    return base, mode


def leaf_members(fams, name):
    out = []
    for m in fams[name]:
        if m in fams:
            out += leaf_members(fams, m)
        else:
            out.append(m)
    return sorted(out)


def family_map(fams):
    return {f: leaf_members(fams, f) for f in fams}


# ------------------------------------------------- family form -> member form
def expand_node(node, fams, lhs):
    """Member-level form of a node (model of the property statement)."""
    if G.is_atom(node):
        if 'x' in node or node['n'] not in fams:
            return node
        mem = leaf_members(fams, node['n'])
        if not node.get('q'):
            # plain family (lone node or end of chain): the members, plain
            atoms = [{'n': m, 'o': '', 'q': '', 'opt': bool(node.get('opt'))}
                     for m in mem]
            return atoms[0] if len(atoms) == 1 else ['&'] + atoms
        base, mode = split_q(node['q'])
        out = MEMBER_OUT[base]
        atoms = [{'n': m, 'o': node.get('o', ''), 'q': out,
                  'opt': bool(node.get('opt')) and out != 'finished'}
                 for m in mem]
        if not lhs:
            # right-hand family: every member, whatever -all/-any
            return atoms[0] if len(atoms) == 1 else ['&'] + atoms
        return ['&' if mode == 'all' else '|'] + atoms
    return [node[0]] + [expand_node(c, fams, lhs) for c in node[1:]]


def _flatten_and(node):
    """['&', a, ['&', b, c]] -> ['&', a, b, c] (right-hand AND lists)."""
    if G.is_atom(node):
        return node
    out = [node[0]]
    for c in node[1:]:
        c = _flatten_and(c)
        if not G.is_atom(c) and c[0] == '&' and node[0] == '&':
            out += c[1:]
        else:
            out.append(c)
    return out


def expand_chains(chains, fams):
    """Two member-level versions of every chain.

    `as_lhs`: node i as the left side of pair (i, i+1);
    `as_rhs`: node i as the right side of pair (i-1, i).
    A mid-chain family node means AND/OR on its left-hand use but "every
    member" on its right-hand use, so the chain is cut into pairs.
    """
    out = []
    for ch in chains:
        if len(ch) == 1:
            out.append([_flatten_and(expand_node(ch[0], fams, lhs=False))])
            continue
        for i in range(len(ch) - 1):
            left = expand_node(ch[i], fams, lhs=True)
            right = _flatten_and(expand_node(ch[i + 1], fams, lhs=False))
            out.append([left, right])
    return out


# ------------------------------------------------------------------ domain
def core_cases():
    """Finite product, as plain JSON cases."""
    for q, size, nested, pos in itertools.product(
            QUALS, (1, 2, 3, 4), (False, True), POSITIONS):
        if nested and size < 2:
            continue
        if pos == 'two-families' and not nested:
            continue
        base, _ = split_q(q)
        opts = [True] if base in MUST_OPT else (
            [False] if base in NEVER_OPT else [False, True])
        offs = ['', '[-P1]'] if pos.startswith('left') else ['']
        if pos == 'right-plain':
            if q != QUALS[0]:
                continue          # no qualifier involved: once per shape
            opts = [False]
        for opt, off in itertools.product(opts, offs):
            mem = [f'm{i}' for i in range(1, size + 1)]
            if nested:
                fams = {'FAM': [mem[0], 'SUB'], 'SUB': mem[1:]}
            else:
                fams = {'FAM': mem}
            fa = {'n': 'FAM', 'o': off, 'q': q, 'opt': opt}
            p = {'n': 'p', 'o': '', 'q': '', 'opt': False}
            r = {'n': 'r', 'o': '', 'q': '', 'opt': False}
            x = {'n': 'x', 'o': '', 'q': '', 'opt': False}
            lone = [dict(fa, o='')]
            if pos == 'left-alone':
                chains = [[fa, x]]
            elif pos == 'left-and':
                chains = [[['&', fa, p], x]]
            elif pos == 'left-or':
                chains = [[['|', p, fa], x]]
            elif pos == 'left-nested':
                chains = [[['&', ['|', fa, p], r], x]]
            elif pos == 'right-plain':
                chains = [[p, {'n': 'FAM', 'o': '', 'q': '', 'opt': False}]]
            elif pos == 'right-qualified':
                chains = [[p, fa]]
            elif pos == 'lone':
                chains = [[fa]]
            elif pos == 'mid-chain':
                chains = [[p, fa, x]]
            else:
                sub = {'n': 'SUB', 'o': '', 'q': q, 'opt': opt}
                chains = [[['&', fa, sub], x]]
            if off:
                # cylc needs a non-offset appearance of every task
                chains.append(lone)
            yield {'fams': fams, 'chains': chains, 'pos': pos}


@st.composite
def cases(draw):
    n1 = draw(st.integers(1, 3))
    n2 = draw(st.integers(0, 2))
    mem = [f'm{i}' for i in range(1, n1 + 1)]
    sub = [f's{i}' for i in range(1, n2 + 1)]
    # the nested family is called SUB, or X-FAM (a name that ends in "FAM"
    # after a non-word character)
    subname = draw(st.sampled_from(['SUB', 'SUB', 'X-FAM']))
    fams = {'FAM': mem + ([subname] if sub else [])}
    if sub:
        fams[subname] = sub
    famnames = sorted(fams)
    # one optionality profile for all family members of the case
    sf = draw(st.sampled_from([0, 1, 1, 2]))
    allowed = []
    if sf == 0:
        allowed += [('succeed', False)]
    elif sf == 1:
        allowed += [('succeed', True), ('fail', True), ('finish', False)]
    else:
        allowed += [('fail', False)]
    sub_mode = draw(st.sampled_from([0, 1, 2, 2]))
    if sub_mode == 1:
        allowed += [('submit', False)]
    elif sub_mode == 2:
        allowed += [('submit', True), ('submit-fail', True)]
    st_mode = draw(st.sampled_from([0, 1, 2]))
    if st_mode:
        allowed += [('start', st_mode == 2)]
    if draw(st.booleans()):
        allowed += [('expire', True)]
    tasks = ['p', 'r', 'x']
    tprof = [B._allowed(draw(B._profile()), False) for _ in tasks]

    def fam_atom(off=False):
        f = draw(st.sampled_from(famnames))
        base, opt = allowed[draw(st.integers(0, len(allowed) - 1))]
        mode = draw(st.sampled_from(['all', 'any']))
        return {'n': f, 'o': '[-P1]' if off else '', 'q': f'{base}-{mode}',
                'opt': opt}

    def task_atom(i, pos, off=False):
        return draw(B._atom(tasks[i], tprof[i], pos, offset=off))

    chains = []
    for _ in range(draw(st.integers(1, 3))):
        ln = draw(st.integers(1, 3))
        nodes = []
        for gi in range(ln):
            pos = 'first' if gi == 0 else ('last' if gi == ln - 1 else 'mid')
            k = draw(st.integers(1, 3))
            atoms = []
            for _j in range(k):
                if draw(st.integers(0, 2)) != 1:
                    if (pos == 'last' and ln > 1
                            and draw(st.integers(0, 3)) >= 2):
                        atoms.append({'n': draw(st.sampled_from(famnames)),
                                      'o': '', 'q': '', 'opt': False})
                    else:
                        atoms.append(fam_atom(
                            off=(gi == 0 and ln > 1
                                 and draw(st.integers(0, 4)) == 3)))
                else:
                    atoms.append(task_atom(
                        draw(st.integers(0, len(tasks) - 1)), pos,
                        off=(gi == 0 and ln > 1
                             and draw(st.integers(0, 4)) == 3)))
            # drop textual duplicates
            seen, uniq = set(), []
            for a in atoms:
                t = G.atom_text(a)
                if t not in seen:
                    seen.add(t)
                    uniq.append(a)
            atoms = uniq
            if gi == 0:
                node = draw(B._tree(atoms))
                if not G.is_atom(node) and draw(st.integers(0, 4)) == 2:
                    node = [node[0] + 'p'] + node[1:]
            else:
                node = atoms[0] if len(atoms) == 1 else ['&'] + atoms
            nodes.append(node)
        if ln > 1 and draw(st.integers(0, 3)) == 1:
            # plain family on the right: trigger applied to every member
            fa = {'n': draw(st.sampled_from(famnames)), 'o': '', 'q': '',
                  'opt': False}
            nodes[-1] = fa if draw(st.booleans()) else [
                '&', fa, {'n': 'x', 'o': '', 'q': '', 'opt': False}]
            # left side made of plain tasks below the members in the order
            if draw(st.booleans()):
                nodes[0] = task_atom(0, 'first')
                del nodes[1:-1]
        chains.append(nodes)
    _dag_and_sequences(chains, fams, allowed, tasks, tprof)
    return {'fams': fams, 'chains': chains, 'pos': 'mixture'}


def _dag_and_sequences(chains, fams, allowed, tasks, tprof):
    """Generator post-processing (deterministic):

    * a chain whose non-offset names repeat across its nodes would be a
      self-edge / cycle at config level: later repeats are removed;
    * every name used only with an offset gets a lone-node line.
    """
    order = {n: i for i, n in enumerate(
        ['p', 'm1', 'm2', 'm3', 's1', 's2', 'r', 'x'])}

    def names_of(a):
        if a['n'] in fams:
            return leaf_members(fams, a['n'])
        return [a['n']]

    for ch in chains:
        # make same-cycle edges go upwards in `order`: keep only atoms whose
        # names are all above every name used (without offset) so far
        high = -1
        for gi, node in enumerate(ch):
            atoms = B._atoms(node)
            if gi == 0:
                keep = atoms
            else:
                keep = [a for a in atoms
                        if min(order[n] for n in names_of(a)) > high]
                if not keep:
                    del ch[gi:]
                    break
                if len(keep) != len(atoms):
                    ch[gi] = keep[0] if len(keep) == 1 else ['&'] + keep
            high = max([high] + [order[n] for a in keep if not a.get('o')
                                 for n in names_of(a)])
        if len(ch) == 1:
            for a in B._atoms(ch[0]):
                a['o'] = ''
    chains[:] = [ch for ch in chains if ch]
    # a plain family / family needing a qualifier: plain family atoms are only
    # legal as lone nodes or at the end of a chain
    for ch in chains:
        for gi, node in enumerate(ch):
            for a in B._atoms(node):
                if a['n'] in fams and not a.get('q'):
                    if not (gi == len(ch) - 1):
                        base, opt = allowed[0]
                        a.update(q=f'{base}-all', opt=opt)
                    elif len(ch) == 1 and allowed[0] != ('succeed', False):
                        # lone plain family declares success required
                        base, opt = allowed[0]
                        a.update(q=f'{base}-all', opt=opt)
    if not chains:
        base, opt = allowed[0]
        chains.append([{'n': 'FAM', 'o': '', 'q': f'{base}-all', 'opt': opt}])
    plain = set()
    for ch in chains:
        for node in ch:
            for a in B._atoms(node):
                if not a.get('o'):
                    plain.update(names_of(a))
    for ch in list(chains):
        for node in ch:
            for a in B._atoms(node):
                missing = [n for n in names_of(a) if n not in plain]
                if not missing:
                    continue
                if a['n'] in fams:
                    base, opt = allowed[0]
                    chains.append([{'n': a['n'], 'o': '', 'q': f'{base}-all',
                                    'opt': opt}])
                else:
                    q, opt = tprof[tasks.index(a['n'])][0]
                    chains.append([{'n': a['n'], 'o': '', 'q': q,
                                    'opt': opt}])
                plain.update(names_of(a))


# ------------------------------------------------------------------ checks
def _tables(gp):
    """right -> (trees, problems) for non-suicide triggers."""
    out = {}
    for right in gp.triggers:
        trees, problems = G.lhs_truth(gp, right, False)
        if trees or problems:
            out[right] = (trees, problems)
    return out


def _compare_tables(got, model_deps):
    """-> list of (right, description) mismatches; model_deps: right -> [expr]."""
    bad = []
    for right in sorted(set(got) | set(model_deps)):
        trees, problems = got.get(right, ([], []))
        lhs = model_deps.get(right, [])
        if any(p[0] in ('syntax', 'trigs') for p in problems):
            bad.append((right, f'unparseable expression: {problems[0][1]}'))
            continue
        if problems:
            continue      # unparenthesised mixture (not generated here)
        keys = set()
        for x in lhs:
            for a in B._atoms(x):
                keys.update(G.atom_keys(a))
        tvars = set()
        for t in trees:
            tvars.update(G.tree_vars(t))
        if tvars - keys:
            bad.append((right, f'unexpected trigger atoms '
                               f'{sorted(tvars - keys)}; expected over '
                               f'{sorted(keys)}'))
            continue
        if len(keys) > 14:
            continue
        tt = G.TT(keys)
        want = tt.true
        for x in lhs:
            want &= tt.of_expr(x)
        have = tt.true
        for t in trees:
            have &= tt.of_tree(t)
        if want != have:
            bad.append((right, 'parsed triggers are not equivalent to '
                        + ' AND '.join(' '.join(B.node_tokens(x))
                                       for x in lhs)))
    return bad


def _family_quals(chains, fams):
    """Distinct (qualifier) of family atoms on left sides / right sides."""
    left, right = set(), set()
    for ch in chains:
        for i, node in enumerate(ch):
            for a in B._atoms(node):
                if a['n'] in fams and a.get('q'):
                    if i < len(ch) - 1:
                        left.add(a['q'])
                    if i > 0 or len(ch) == 1:
                        right.add(a['q'])
                    if i == 0 and len(ch) > 1:
                        right.add(a['q'])   # (None, atom) pair sets outputs
    return left, right


def _fam_name_overlap(chains, fams):
    """Some left-hand node has FAM:q and <something non-word>FAM:q (same
    qualifier and offset), e.g. FAM:succeed-all | X-FAM:succeed-all."""
    for ch in chains:
        for node in ch[:-1] if len(ch) > 1 else []:
            atoms = [a for a in B._atoms(node) if a['n'] in fams]
            for a in atoms:
                for b in atoms:
                    if (a['n'] != b['n'] and b['n'].endswith(a['n'])
                            and not re.match(r'\w', b['n'][-len(a['n']) - 1])
                            and a.get('q') == b.get('q')
                            and a.get('o', '') == b.get('o', '')):
                        return True
    return False


def _single_lhs_ok(q, fams, size_fam='FAM'):
    """Does `FAM:q(?) => zz9` alone parse to the member-level meaning?"""
    from cylc.flow.graph_parser import GraphParser
    base, _ = split_q(q)
    a = {'n': size_fam, 'o': '', 'q': q, 'opt': base in MUST_OPT}
    chains = [[a, {'n': 'zz9', 'o': '', 'q': '', 'opt': False}]]
    gp = GraphParser(family_map(fams))
    try:
        gp.parse_graph(B.render(chains, []))
    except Exception:
        return False
    model = B.model_of(expand_chains(chains, fams))
    deps = {k[0]: v for k, v in model['deps'].items()}
    return not _compare_tables(_tables(gp), deps)


def _single_opt_ok(q, fams):
    """Does lone `FAM:q(?)` give every member the declared optionality?"""
    from cylc.flow.graph_parser import GraphParser
    base, _ = split_q(q)
    a = {'n': 'FAM', 'o': '', 'q': q, 'opt': base in MUST_OPT}
    chains = [[a]]
    gp = GraphParser(family_map(fams))
    try:
        gp.parse_graph(B.render(chains, []))
    except Exception:
        return False
    model = B.model_of(expand_chains(chains, fams))
    nodes = set(model['nodes'])
    want = G.apply_default(model['req'], nodes)
    got = G.apply_default(G.eff_required(gp.task_output_opt), nodes)
    return want == got


def check_case(case, ctx: Ctx) -> CaseResult:
    from cylc.flow.graph_parser import GraphParser
    from cylc.flow.exceptions import GraphParseError
    from vf.cylcutil import reset_globals
    reset_globals()
    fams = case['fams']
    chains = case['chains']
    fmap = family_map(fams)
    expanded = expand_chains(chains, fams)
    model = B.model_of(expanded)
    classes = ['pos:' + case.get('pos', '?')]
    used = [a for ch in chains for node in ch for a in B._atoms(node)
            if a['n'] in fams]
    for a in used:
        classes.append('q:' + (a.get('q') or 'plain'))
    classes = sorted(set(classes))
    sizes = {len(fmap[a['n']]) for a in used}
    for s in sizes:
        classes.append(f'size:{s}')
    if len(fams) > 1:
        classes.append('nested')
    if any(a.get('o') for a in used):
        classes.append('family-offset')
    if any(a.get('opt') for a in used):
        classes.append('family-optional')
    nontrivial = any(s >= 2 for s in sizes)
    if model['problems']:
        return CaseResult([], inconclusive=True,
                          classes=classes + ['gen-inconsistent'])
    viol = []
    lq, rq = _family_quals(chains, fams)
    text = B.render(chains, [])
    gp = GraphParser(fmap)
    try:
        gp.parse_graph(text)
    except GraphParseError as exc:
        viol.append(Violation(
            'C15:valid-family-graph-rejected:' + B.err_bucket(exc),
            f'GraphParseError: {exc}\nfamilies {fmap}\n{text}'))
        return CaseResult(viol, nontrivial=nontrivial, classes=classes,
                          distinct_key=[fams, chains])
    except RecursionError:
        raise
    except Exception as exc:
        viol.append(Violation(
            'C15:wrong-exception:' + exc_sig(exc),
            f'{type(exc).__name__}: {exc}\nfamilies {fmap}\n{text}'))
        return CaseResult(viol, nontrivial=nontrivial, classes=classes,
                          distinct_key=[fams, chains])
    ctxt = f'families {fmap}\ngraph:\n{text}\nparsed triggers: {gp.triggers}'

    # (1) model: left-hand meaning
    deps = {k[0]: v for k, v in model['deps'].items() if not k[1]}
    lhs_bad = _compare_tables(_tables(gp), deps)
    if lhs_bad:
        culprits = sorted(q for q in lq if not _single_lhs_ok(q, fams))
        right, why = lhs_bad[0]
        if (not culprits and why.startswith('unparseable')
                and _fam_name_overlap(chains, fams)):
            viol.append(Violation(
                'C15:lhs-garbled:family-name-suffix-overlap',
                f'triggers of {right}: {why}\n{ctxt}'))
        elif culprits:
            for q in culprits:
                viol.append(Violation(
                    f'C15:lhs-meaning:{q}',
                    f'FAM:{q} on the left does not mean '
                    f'{"AND" if q.endswith("all") else "OR"} over members of '
                    f':{MEMBER_OUT[split_q(q)[0]]}; triggers of {right}: '
                    f'{why}\n{ctxt}'))
        else:
            viol.append(Violation(
                'C15:lhs-meaning:mixture',
                f'triggers of {right}: {why}\n{ctxt}'))
    # (2) nodes: members, never family names
    if set(gp.triggers) != model['nodes']:
        viol.append(Violation(
            'C15:node-set-differs',
            f'parser nodes {sorted(gp.triggers)} != member-level nodes '
            f'{sorted(model["nodes"])}\n{ctxt}'))
    # (3) optionality applied to every member
    nodes = set(model['nodes']) | set(model['req'])
    want = G.apply_default(model['req'], nodes)
    got = G.apply_default(G.eff_required(gp.task_output_opt),
                          nodes | {k[0] for k in gp.task_output_opt})
    if want != got:
        diffs = [f'{t}: declared {want.get(t)} != parsed {got.get(t)}'
                 for t in sorted(set(want) | set(got))
                 if want.get(t) != got.get(t)]
        culprits = sorted(q for q in (lq | rq) if not _single_opt_ok(q, fams))
        if culprits:
            for q in culprits:
                viol.append(Violation(
                    f'C15:member-optionality:{q}',
                    '; '.join(diffs[:3]) + '\n' + ctxt))
        else:
            viol.append(Violation(
                'C15:member-optionality:mixture',
                '; '.join(diffs[:3]) + '\n' + ctxt))
    # (4) metamorphic: family form == hand-expanded member form
    if not viol:
        text2 = B.render(expanded, [])
        gp2 = GraphParser()
        try:
            gp2.parse_graph(text2)
        except GraphParseError as exc:
            viol.append(Violation(
                'C15:member-form-rejected',
                f'{exc}\nmember form:\n{text2}\nfamily form:\n{text}'))
        else:
            t1, t2 = _tables(gp), _tables(gp2)
            diff = None
            for right in sorted(set(t1) | set(t2)):
                a, b = t1.get(right, ([], [])), t2.get(right, ([], []))
                if a[1] or b[1]:
                    continue
                vs = set()
                for t in a[0] + b[0]:
                    vs.update(G.tree_vars(t))
                if len(vs) > 14:
                    continue
                tt = G.TT(vs)
                ta = tb = tt.true
                for t in a[0]:
                    ta &= tt.of_tree(t)
                for t in b[0]:
                    tb &= tt.of_tree(t)
                if ta != tb:
                    diff = right
                    break
            n1 = B.normalise(gp)
            n2 = B.normalise(gp2)
            if diff or n1['nodes'] != n2['nodes'] or (
                    n1['required'] != n2['required']):
                viol.append(Violation(
                    'C15:family-form-differs-from-member-form',
                    f'family form:\n{text}\n-> {gp.triggers} '
                    f'{n1["required"]}\nmember form:\n{text2}\n-> '
                    f'{gp2.triggers} {n2["required"]}'))
    if int(jhash([fams, chains])[:8], 16) % 20 == 0:
        classes.append('via-config')
        if int(jhash([chains, fams])[:8], 16) % 2 == 0:
            classes.append('via-config:member-with-family-as-second-parent')
        viol += _check_config(fams, chains, model, ctx)
    seen, out = set(), []
    for v in viol:
        if v.sig not in seen:
            seen.add(v.sig)
            out.append(v)
    return CaseResult(out, nontrivial=nontrivial, classes=classes,
                      distinct_key=[fams, chains])


# ------------------------------------------------------------ config level
def _flow(fams, chains, text, multi=False):
    lines = ['[scheduler]', '    allow implicit tasks = True',
             '[scheduling]', '    cycling mode = integer',
             '    initial cycle point = 1', '    final cycle point = 3',
             '    [[graph]]', '        P1 = """']
    lines += ['            ' + ln for ln in text.split('\n')]
    lines += ['        """', '[runtime]']
    custom = {}
    for ch in chains:
        for node in ch:
            for a in B._atoms(node):
                q = a.get('q', '')
                if a['n'] not in fams and q and G.std(q) not in G.STD_OUTPUTS:
                    custom.setdefault(a['n'], set()).add(q)
    parent = {}
    for f, mem in fams.items():
        for m in mem:
            parent[m] = f
    for f in sorted(fams, key=lambda f: 0 if f not in parent else 1):
        lines.append(f'    [[{f}]]')
        if f in parent:
            lines.append(f'        inherit = {parent[f]}')
    if multi:
        # multiple inheritance: every other member task reaches its family
        # as a SECOND parent (it is a member all the same)
        lines.append('    [[OTHER_NS]]')
    k = 0
    for m in sorted(parent):
        if m in fams:
            continue
        k += 1
        first = 'OTHER_NS, ' if (multi and k % 2 == 0) else ''
        lines += [f'    [[{m}]]', f'        inherit = {first}{parent[m]}']
    for name in sorted(custom):
        lines += [f'    [[{name}]]', '        [[[outputs]]]']
        for q in sorted(custom[name]):
            lines.append(f'            {q} = {q}')
    return '\n'.join(lines) + '\n'


def _check_config(fams, chains, model, ctx):
    from cylc.flow.exceptions import CylcError
    from vf.cylcutil import load_config
    multi = int(jhash([chains, fams])[:8], 16) % 2 == 0
    text = _flow(fams, chains, B.render(chains, []), multi)
    try:
        cfg = load_config(text, ctx.scratch)
    except CylcError as exc:
        sig = 'C15:config-valid-family-graph-rejected'
        m = re.search(r'Undefined custom output: ([\w\-+%@]+):([\w-]+)$', str(exc))
        if m and m.group(1) in fams and m.group(2) in QUALS:
            # a family qualifier at the end of a chain taken for a custom
            # output of a task called like the family
            sig = ('C15:config-terminal-family-qualifier-taken-as-custom-'
                   f'output:{m.group(2)}')
        return [Violation(sig, f'{type(exc).__name__}: {exc}\n{text}')]
    except RecursionError:
        raise
    except Exception as exc:
        return [Violation('C15:config-wrong-exception:' + exc_sig(exc),
                          f'{type(exc).__name__}: {exc}\n{text}')]
    viol = []
    if set(cfg.taskdefs) != model['nodes']:
        viol.append(Violation(
            'C15:config-node-set-differs',
            f'{sorted(cfg.taskdefs)} != {sorted(model["nodes"])}\n{text}'))
    lq, rq = _family_quals(chains, fams)
    for name, td in cfg.taskdefs.items():
        lhs = model['deps'].get((name, False), [])
        trees = []
        broken = None
        for _seq, dl in td.dependencies.items():
            for dep in dl:
                try:
                    trees.append(B._exp_tree(dep._exp))
                except (G.ExprSyntax, G.MixedOps) as exc:
                    broken = str(exc)
        if broken:
            sig = 'C15:config-dependency-unparseable'
            if _fam_name_overlap(chains, fams):
                sig = 'C15:lhs-garbled:family-name-suffix-overlap'
            viol.append(Violation(sig, f'{name}: {broken}\n{text}'))
            continue
        bad = _compare_tables({name: (trees, [])} if trees else {},
                              {name: lhs} if lhs else {})
        if bad:
            culprits = sorted(q for q in lq if not _single_lhs_ok(q, fams))
            sigs = [f'C15:lhs-meaning:{q}' for q in culprits] or [
                'C15:config-lhs-meaning:mixture']
            for sig in sigs:
                viol.append(Violation(
                    sig, f'TaskDef {name} dependencies '
                    f'{[d._exp for dl in td.dependencies.values() for d in dl]}'
                    f': {bad[0][1]}\n{text}'))
    want = G.apply_default(model['req'], model['nodes'])
    want = {n: v for n, v in want.items() if n in model['nodes']}
    got = {n: {o: v[1] for o, v in td.outputs.items() if v[1] is not None}
           for n, td in cfg.taskdefs.items()}
    if want != got:
        diffs = [f'{t}: declared {want.get(t)} != TaskDef {got.get(t)}'
                 for t in sorted(set(want) | set(got))
                 if want.get(t) != got.get(t)]
        culprits = sorted(q for q in (lq | rq) if not _single_opt_ok(q, fams))
        sigs = [f'C15:member-optionality:{q}' for q in culprits] or [
            'C15:config-member-outputs-differ']
        for sig in sigs:
            viol.append(Violation(sig, '; '.join(diffs[:3]) + '\n' + text))
    return viol


def run_shard(ctx: Ctx):
    col = ctx.col
    n = 0
    for i, case in enumerate(core_cases()):
        if i % ctx.nshards != ctx.shard:
            continue
        res = check_case(case, ctx)
        col.record(case, res)
        n += 1
        for v in col.filter_known(res.violations):
            col.add_violation(v, case)
    col.extra['core_cases_this_shard'] = n
    hyp_run(ctx, cases(), check_case, ctx.share(BUDGET[ctx.tier]))
