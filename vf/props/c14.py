"""C14 Graph parsing is faithful and insensitive to presentation.

Hypothesis draws a graph AST (chains of nodes over a small task pool, with
consistent per-task output-optionality profiles) and several "print streams";
a deterministic pretty-printer turns (AST, stream) into graph text (chains vs
pairs, whitespace, comments, continuation lines, duplicated and shuffled
lines).  Oracles:

  (i)   metamorphic: every rendering parses to the same normalised
        (nodes, triggers, effective output optionality);
  (ii)  faithfulness: per right-hand task, the AND of the parsed trigger
        expressions (re-parsed by vf.gen.graphast, not by cylc) is
        truth-table-equal to the AND of the AST's left-hand expressions;
        node set and output optionality equal the AST's declaration;
  (iii) malformed renderings (one documented kind of damage applied to one
        line) raise GraphParseError;
  (iv)  for a fraction of cases the same through a real WorkflowConfig
        (TaskDef dependencies, edges, outputs, xtrigger labels).
"""
from __future__ import annotations

import json
import re

from hypothesis import strategies as st

from vf.core import CaseResult, Ctx, Violation, hyp_run, exc_sig, jhash
from vf.gen import graphast as G

PROP_ID = 'C14'
LEVEL = 'exploration'
BUDGET = {'quick': 5000, 'thorough': 40000}
RULE = (
    'Hypothesis draws a graph AST: 2-6 tasks (plain names, or 30 % of cases '
    'names with - + % @ and prefix-related pairs), each with a consistent '
    'optionality profile (success required / success+failure optional / '
    'failure required; optional or required submit, start, expire, custom '
    'outputs), 1-4 chains of 1-4 nodes (first node = and/or expression tree '
    'with parentheses, offsets, xtriggers, several qualifiers of one task; '
    'later nodes = AND lists with qualifiers/?; suicide marks on terminal '
    'nodes), and 2-4 print streams.  Each stream renders the AST differently '
    '(chain split into pairs, whitespace, comments, continuation lines before/'
    'after =>, &, |, duplicated lines, shuffled lines); rendering 0 is the '
    'canonical one-line-per-chain form, rendering 1 the all-pairs form.  Every '
    'case also damages one line in one of 16 documented ways (half of them '
    'moved to the last line) and expects GraphParseError, and, where some '
    'output is declared at two places, flips one ? to get an optionality '
    'conflict (chain and pair renderings must both reject); 1 case in 30 (by '
    'hash of the AST) also goes through WorkflowConfig.  Non-trivial = the '
    'AST has a chain of >= 3 nodes or a rendering used a continuation line or an optional mark is '
    'present, and >= 3 distinct rendered texts were compared.  Distinct = by '
    '(AST, rendered texts).')
ASSUMPTIONS = [
    'Presentation = what the statement lists: chain vs pairs, whitespace '
    'between tokens, comments, continuation on =>/&/|, duplicated lines, line '
    'order (and, at config level, several graph strings for one section). '
    'Operand order, redundant parentheses and qualifier spelling are part of '
    'the AST, not of the presentation.',
    'Lone-node rows (expression "") of GraphParser.triggers are not compared: '
    'splitting a chain legitimately adds them; the node set is compared instead.',
    'Output optionality is compared as what TaskDef sees: (task, output) -> '
    'required/optional/unset, with the documented default (success required '
    'when neither success nor failure is set).',
    'Truth of unparenthesised mixtures of & and | is not asserted (DESIGN 5a); '
    'their presentation-insensitivity is.',
    'Mid-chain plain names declare :succeeded required, end-of-chain plain '
    'names declare nothing, lone/first nodes declare :succeeded (GraphParser '
    'class docstring).',
    'Malformed kinds are those for which graph_parser.py has an explicit '
    'GraphParseError or tests/unit/test_graph_parser.py expects one, plus two '
    'that no documented node syntax admits (a bare "!" on the right; a '
    'parameter item that does not start with a name, e.g. foo<+>): for these '
    'any clean rejection (GraphParseError or ParamExpandError) is accepted, '
    'another exception type is not.',
    'Thorough tier: an Atheris campaign (shards 0-3) adds byte-level inputs; '
    'only wrong exception types found there are reported, after re-checking '
    'the saved text through the plain replay path; its fixed-point statistic '
    'is informational.',
]
MANIFEST = {
    'engine': 'P',
    'technique': 'Hypothesis over graph ASTs + randomised pretty-printer; '
                 'metamorphic + truth-table faithfulness; damaged renderings',
}

SIMPLE = ['a', 'b', 'c', 'd', 'e', 'f', 'g']
EXOTIC = ['foo', 'foo-bar', 'bar', 'bar+1', 'xbar', 'q%x', 'foo_2', 'x@y',
          'Foo', '1st', '_u']
ALT = {'succeeded': 'succeed', 'failed': 'fail', 'started': 'start',
       'submitted': 'submit', 'submit-failed': 'submit-fail',
       'expired': 'expire', 'finished': 'finish'}
COMMENTS = ['# c', '#', '# a => b', '#x & y | (z', '# ) => ?', '## !q:fail?',
            '# <m> [-P1] @x', '#\t tab  ']
WS = ['', ' ', '  ', '\t', ' \t ']


# ------------------------------------------------------------ AST strategy
@st.composite
def _profile(draw):
    w = draw(st.integers(0, 99))
    sf = 1 if 20 <= w < 58 else (2 if 58 <= w < 70 else 0)
    other = 3 <= draw(st.integers(0, 9)) < 7
    if not other:
        return {'sf': sf, 'sub': 0, 'st': 0, 'ex': 0, 'cu': 0, 'cu2': 0}
    return {
        'sf': sf,
        'sub': draw(st.sampled_from([0, 0, 1, 2, 2])),
        'st': draw(st.sampled_from([0, 0, 1, 2])),
        'ex': draw(st.sampled_from([0, 0, 0, 1])),
        'cu': draw(st.sampled_from([0, 0, 1, 2])),
        'cu2': draw(st.sampled_from([0, 0, 0, 1, 2])),
    }


def _allowed(p, exotic):
    """[(std output or '', optional)] a task may be written with."""
    out = []
    if p['sf'] == 0:
        out += [('', False), ('succeeded', False)]
    elif p['sf'] == 1:
        out += [('', True), ('succeeded', True), ('failed', True),
                ('finished', False)]
    else:
        out += [('failed', False)]
    if p['sub'] == 1:
        out += [('submitted', False)]
    elif p['sub'] == 2:
        out += [('submitted', True), ('submit-failed', True)]
    if p['st']:
        out += [('started', p['st'] == 2)]
    if p['ex']:
        out += [('expired', True)]
    if p['cu']:
        out += [('x', p['cu'] == 2)]
    if exotic and p['cu2']:
        out += [('start-1', p['cu2'] == 2)]
    return out


@st.composite
def _atom(draw, name, allowed, pos, offset=False, nondefault=False):
    """pos: 'first' | 'mid' | 'last'."""
    c = draw(st.integers(0, 9))
    if pos == 'last' and c < 4 and not nondefault:
        q, opt = '', False                # plain terminal: declares nothing
    elif (c < 7 and not nondefault) or len(allowed) == 1:
        q, opt = allowed[0]
    else:
        q, opt = allowed[draw(st.integers(1, len(allowed) - 1))]
    if q in ALT and draw(st.booleans()):
        q = ALT[q]
    return {'n': name, 'o': '[-P1]' if offset else '', 'q': q, 'opt': opt}


@st.composite
def _respell(draw, atom):
    """The same atom, qualifier in the other (or the same) spelling."""
    a = dict(atom)
    inv = {v: k for k, v in ALT.items()}
    if draw(st.booleans()):
        a['q'] = ALT.get(a['q'], inv.get(a['q'], a['q']))
    return a


@st.composite
def _tree(draw, atoms, depth=0):
    if len(atoms) == 1:
        return atoms[0]
    op = draw(st.sampled_from('&&|'))
    if depth >= 2 or len(atoms) == 2 or draw(st.integers(0, 2)) == 0:
        return [op] + list(atoms)
    j = draw(st.integers(1, len(atoms) - 1))
    parts = []
    for part in (atoms[:j], atoms[j:]):
        sub = draw(_tree(part, depth + 1))
        if not G.is_atom(sub) and G.op_of(sub) == op:
            parts += sub[1:]           # same operator: keep flat
        else:
            parts.append(sub)
    return [op] + parts


@st.composite
def _chain(draw, names, allowed, exotic):
    n = len(names)
    k = draw(st.integers(1, min(n, 5)))
    idx = sorted(draw(st.lists(
        st.integers(0, n - 1), unique=True, min_size=k, max_size=k)))
    groups = [[idx[0]]]
    for i in idx[1:]:
        if len(groups) < 4 and draw(st.integers(0, 9)) < 6:
            groups.append([i])
        else:
            groups[-1].append(i)
    nodes = []
    ln = len(groups)
    for gi, grp in enumerate(groups):
        pos = 'first' if gi == 0 else ('last' if gi == ln - 1 else 'mid')
        atoms = [draw(_atom(names[i], allowed[i], pos)) for i in grp]
        if gi == 0:
            if ln > 1 and draw(st.integers(0, 3)) == 1:
                j = draw(st.integers(0, n - 1))
                atoms.append(draw(_atom(names[j], allowed[j], 'first',
                                        offset=True)))
                if draw(st.integers(0, 2)) == 1:
                    # the same offset task again: same output in the other
                    # spelling, the identical text, or another output
                    atoms.append(draw(st.one_of(
                        _atom(names[j], allowed[j], 'first', offset=True),
                        _respell(atoms[-1]))))
            if draw(st.integers(0, 3)) == 2:
                i = grp[draw(st.integers(0, len(grp) - 1))]
                if len(allowed[i]) > 1:
                    extra = draw(_atom(names[i], allowed[i], 'first',
                                       nondefault=True))
                    if all(G.atom_text(extra) != G.atom_text(a)
                           for a in atoms):
                        atoms.append(extra)
            atoms = list(draw(st.permutations(atoms)))
            mix = len(atoms) >= 3 and draw(st.integers(0, 11)) == 5
            if mix:
                ops = [draw(st.sampled_from('&|')) for _ in atoms[1:]]
                if len(set(ops)) < 2:
                    ops[-1] = '&' if ops[0] == '|' else '|'
                node = ['mix', atoms[0]]
                for op, a in zip(ops, atoms[1:]):
                    node += [op, a]
            else:
                node = draw(_tree(atoms))
                if not G.is_atom(node) and draw(st.integers(0, 4)) == 2:
                    node = [node[0] + 'p'] + node[1:]
                if (draw(st.integers(0, 7)) == 3 and not _has_or(node)
                        and not any(a.get('q') in ('finish', 'finished')
                                    for a in _atoms(node))):
                    xa = {'x': 'x0'}
                    if G.is_atom(node):
                        node = ['&', xa, node]
                    elif node[0] == '&':
                        j = draw(st.integers(1, len(node)))
                        node = node[:j] + [xa] + node[j:]
                    else:
                        node = ['&', xa, node]
        else:
            node = atoms[0] if len(atoms) == 1 else ['&'] + atoms
            if (pos == 'last' and draw(st.integers(0, 11)) == 4
                    and not any('x' in a for a in _atoms(nodes[0]))):
                tgt = draw(st.integers(0, len(atoms) - 1))
                atoms[tgt].update(q='', opt=False, s=True)
        nodes.append(node)
    return nodes


def _has_or(node):
    if G.is_atom(node):
        return False
    if node[0] == 'mix':
        return True
    return G.op_of(node) == '|' or any(_has_or(c) for c in node[1:])


def _atoms(node):
    if G.is_atom(node):
        return [node]
    if node[0] == 'mix':
        out = []
        for it in node[1::2]:
            out += _atoms(it)
        return out
    out = []
    for c in node[1:]:
        out += _atoms(c)
    return out


@st.composite
def cases(draw):
    exotic = 4 <= draw(st.integers(0, 9)) < 7
    pool = EXOTIC if exotic else SIMPLE
    n = draw(st.integers(2, 6))
    names = draw(st.lists(st.sampled_from(pool), min_size=n, max_size=n,
                          unique=True))
    profs = [draw(_profile()) for _ in names]
    allowed = [_allowed(p, exotic) for p in profs]
    nch = draw(st.integers(1, 4))
    chains = [draw(_chain(names, allowed, exotic)) for _ in range(nch)]
    _fix_suicides(chains)
    # every task used only with an offset / as suicide target also gets a
    # lone-node line (cylc needs a sequence for it)
    plain = set()
    for ch in chains:
        for node in ch:
            for a in _atoms(node):
                if 'n' in a and not a.get('o') and not a.get('s'):
                    plain.add(a['n'])
    for ch in list(chains):
        for node in ch:
            for a in _atoms(node):
                if 'n' in a and a['n'] not in plain:
                    i = names.index(a['n'])
                    q, opt = allowed[i][0]
                    chains.append([{'n': a['n'], 'o': '', 'q': q,
                                    'opt': opt}])
                    plain.add(a['n'])
    nr = draw(st.integers(2, 4))
    renders = [draw(st.lists(st.integers(0, 65535), min_size=1, max_size=5))
               for _ in range(nr)]
    case = {'chains': chains, 'renders': renders}
    case['mal'] = [draw(st.integers(0, len(MAL_KINDS) - 1)),
                   draw(st.integers(0, 999))]
    case['conflict'] = draw(st.integers(0, 999))
    return case


def _fix_suicides(chains):
    """Drop a suicide mark whose left side shares an atom with a normal
    trigger of the same task (GraphParser rejects 'x => a' with 'x => !a')."""
    normal = {}
    for ch in chains:
        for i in range(len(ch) - 1):
            keys = {k for a in _atoms(ch[i]) for k in G.atom_keys(a)}
            for a in _atoms(ch[i + 1]):
                if not a.get('s'):
                    normal.setdefault(a['n'], set()).update(keys)
    for ch in chains:
        for i in range(len(ch) - 1):
            keys = {k for a in _atoms(ch[i]) for k in G.atom_keys(a)}
            for a in _atoms(ch[i + 1]):
                if a.get('s') and (keys & normal.get(a['n'], set())):
                    a.pop('s')
    # a task that is a suicide target with the same left side elsewhere as a
    # normal target: handled above; same left side twice as suicide is fine.


# ------------------------------------------------------------------- model
def node_tokens(node):
    if not G.is_atom(node) and node[0] == 'mix':
        out = []
        for i, it in enumerate(node[1:]):
            if i % 2:
                out.append(it)
            else:
                out += G.expr_tokens(it, top=False)
        return out
    return G.expr_tokens(node)


def model_of(chains):
    nodes = set()
    deps = {}          # (task, suicide) -> [lhs node]
    decl = {}          # (task, output) -> set of optional flags
    problems = []

    def declare(task, q, opt):
        o = G.std(q)
        if o == 'finished':
            if opt:
                problems.append('finish?')
            for oo in ('succeeded', 'failed'):
                decl.setdefault((task, oo), set()).add(True)
            return
        decl.setdefault((task, o), set()).add(bool(opt))

    for ch in chains:
        last = len(ch) - 1
        for i, node in enumerate(ch):
            for a in _atoms(node):
                if 'x' in a:
                    continue
                if not a.get('o'):
                    nodes.add(a['n'])
                if a.get('s'):
                    continue
                if i == 0:
                    declare(a['n'], a.get('q', ''), a.get('opt'))
                elif a.get('q'):
                    declare(a['n'], a['q'], a.get('opt'))
                elif a.get('opt'):
                    declare(a['n'], '', True)
                elif i < last:
                    declare(a['n'], '', False)
            if i < last:
                for a in _atoms(ch[i + 1]):
                    key = (a['n'], bool(a.get('s')))
                    lst = deps.setdefault(key, [])
                    if all(json.dumps(node) != json.dumps(x) for x in lst):
                        lst.append(node)
    # consistency of the declared optionality (GraphParser._set_output_opt)
    for (task, o), flags in decl.items():
        if len(flags) > 1:
            problems.append(f'{task}:{o} both optional and required')
        if o in ('expired', 'submit-failed') and False in flags:
            problems.append(f'{task}:{o} must be optional')
    for s, f in (('succeeded', 'failed'), ('submitted', 'submit-failed')):
        for (task, o), flags in decl.items():
            if o == s and (task, f) in decl:
                if False in flags or False in decl[(task, f)]:
                    problems.append(f'{task}: {s}/{f} must both be optional')
    req = {}
    for (task, o), flags in decl.items():
        req.setdefault(task, {})[o] = not next(iter(flags))
    return {'nodes': nodes, 'deps': deps, 'req': req, 'problems': problems}


# ----------------------------------------------------------------- printer
class Stream:
    def __init__(self, ints):
        self.ints = list(ints)
        self.i = 0
        self.canonical = not self.ints

    def pick(self, k):
        if self.canonical or k <= 1:
            return 0
        v = self.ints[self.i % len(self.ints)]
        x = (v * 2654435761 + self.i * 40503 + 12345) & 0xFFFFFFFF
        x ^= x >> 13
        x = (x * 1274126177) & 0xFFFFFFFF
        x ^= x >> 16
        self.i += 1
        return x % k

    def chance(self, num, den):
        if self.canonical:
            return False
        return self.pick(den) < num


def logical_lines(chains, s: Stream, pairs=False):
    """Chains -> list of node lists (chains cut at interior nodes)."""
    lines = []
    if pairs:
        for ch in chains:
            if len(ch) == 1:
                lines.append(list(ch))
            for i in range(len(ch) - 1):
                lines.append([ch[i], ch[i + 1]])
        return lines
    for ch in chains:
        cur = [ch[0]]
        for i in range(1, len(ch)):
            cur.append(ch[i])
            if i < len(ch) - 1 and s.chance(1, 3):
                lines.append(cur)
                cur = [ch[i]]
        lines.append(cur)
    # duplicates
    for ln in list(lines):
        if s.chance(1, 6):
            lines.insert(s.pick(len(lines) + 1), ln)
    # shuffle
    if not s.canonical:
        for i in range(len(lines) - 1, 0, -1):
            j = s.pick(i + 1)
            lines[i], lines[j] = lines[j], lines[i]
    return lines


def line_tokens(line):
    toks = []
    for i, node in enumerate(line):
        if i:
            toks.append('=>')
        toks += node_tokens(node)
    return toks


def print_line(toks, s: Stream, info):
    """Tokens of one logical line -> list of physical lines."""
    if s.canonical:
        out = ''
        for t in toks:
            if t in ('=>', '&', '|'):
                out += ' ' + t + ' '
            else:
                out += t
        return [out]
    phys = []
    cur = WS[s.pick(len(WS))]
    for i, t in enumerate(toks):
        if t in ('=>', '&', '|') and s.chance(1, 5):
            info['cont'] = True
            if s.pick(2):
                # trailing operator
                cur += WS[s.pick(len(WS))] + t
                phys.append(cur)
                cur = WS[s.pick(len(WS))]
            else:
                phys.append(cur)
                cur = WS[s.pick(len(WS))] + t + WS[s.pick(len(WS))]
            continue
        cur += t if i == 0 else WS[s.pick(len(WS))] + t
        # gap before the next token is added by the next iteration
    phys.append(cur + WS[s.pick(len(WS))])
    out = []
    for p in phys:
        if s.chance(1, 5):
            p += WS[s.pick(len(WS))] + COMMENTS[s.pick(len(COMMENTS))]
            info['comment'] = True
        out.append(p)
        if s.chance(1, 8):
            out.append(['', '   ', COMMENTS[s.pick(len(COMMENTS))],
                        '\t' + COMMENTS[s.pick(len(COMMENTS))]][s.pick(4)])
            info['comment'] = True
    return out


def render(chains, ints, info=None, split=False):
    """-> graph text (or list of 1-2 texts if split).

    ints == [] is the canonical rendering (one line per chain), ints ==
    'pairs' the canonical rendering with every chain cut into pairs.
    """
    if info is None:
        info = {}
    pairs = ints == 'pairs'
    s = Stream([] if pairs else ints)
    lines = logical_lines(chains, s, pairs)
    if len(lines) != sum(1 for _ in chains):
        info['regrouped'] = True
    blocks = [print_line(line_tokens(ln), s, info) for ln in lines]
    if split and len(blocks) > 1 and not s.canonical:
        j = 1 + s.pick(len(blocks) - 1)
        return ['\n'.join(p for b in blocks[:j] for p in b),
                '\n'.join(p for b in blocks[j:] for p in b)]
    text = '\n'.join(p for b in blocks for p in b)
    return [text] if split else text


# -------------------------------------------------------------- malformed
MAL_KINDS = [
    'double-and', 'double-or', 'dangling-arrow', 'leading-arrow',
    'double-arrow', 'open-paren', 'missing-operator', 'rhs-only-offset',
    'or-on-right', 'suicide-on-left', 'qualifier-before-offset',
    'finish-optional', 'expire-required', 'null-operand',
    'bare-suicide-mark', 'malformed-parameter',
]


def malform(chains, kind, sel):
    """-> (list of line texts, index of the damaged line) or None."""
    lines = [line_tokens(ch) for ch in chains]

    def text(ls):
        out = []
        for toks in ls:
            t = ''
            for tok in toks:
                t += f' {tok} ' if tok in ('=>', '&', '|', '&&', '||') else tok
            out.append(t)
        return out

    def positions(pred):
        return [(i, j) for i, toks in enumerate(lines)
                for j, t in enumerate(toks) if pred(i, j, t, toks)]

    def isatom(t):
        return t not in ('=>', '&', '|', '(', ')')

    if kind in ('double-and', 'double-or'):
        op = '&' if kind == 'double-and' else '|'
        pos = positions(lambda i, j, t, toks: t == op)
        if not pos:
            return None
        i, j = pos[sel % len(pos)]
        lines[i][j] = op + op
        return text(lines), i
    if kind == 'dangling-arrow':
        lines[-1].append(['=>', '&', '|'][sel % 3])
        return text(lines), len(lines) - 1
    if kind == 'leading-arrow':
        lines[0].insert(0, ['=>', '&', '|'][sel % 3])
        return text(lines), 0
    if kind == 'double-arrow':
        pos = positions(lambda i, j, t, toks: t == '=>')
        if not pos:
            return None
        i, j = pos[sel % len(pos)]
        lines[i].insert(j, '=>')
        return text(lines), i
    if kind == 'null-operand':
        pos = positions(lambda i, j, t, toks: t == '=>')
        if not pos:
            return None
        i, j = pos[sel % len(pos)]
        lines[i].insert(j, '&')
        return text(lines), i
    if kind == 'open-paren':
        pos = positions(lambda i, j, t, toks: isatom(t))
        i, j = pos[sel % len(pos)]
        lines[i].insert(j, '(' if sel % 2 else ')')
        return text(lines), i
    if kind == 'missing-operator':
        pos = positions(
            lambda i, j, t, toks: t in ('&', '|') and 0 < j < len(toks) - 1
            and isatom(toks[j - 1]) and isatom(toks[j + 1])
            and toks[j + 1][0] not in '!@' and toks[j - 1][0] != '@')
        if not pos:
            return None
        i, j = pos[sel % len(pos)]
        lines[i][j:j + 1] = []
        lines[i][j - 1] = lines[i][j - 1] + ' ' + lines[i].pop(j)
        return text(lines), i
    if kind == 'or-on-right':
        def pred(i, j, t, toks):
            return t == '&' and '=>' in toks[:j]
        pos = positions(pred)
        if not pos:
            return None
        i, j = pos[sel % len(pos)]
        lines[i][j] = '|'
        return text(lines), i
    if kind == 'suicide-on-left':
        def pred(i, j, t, toks):
            return isatom(t) and t[0] not in '!@' and '=>' in toks[j:]
        pos = positions(pred)
        if not pos:
            return None
        i, j = pos[sel % len(pos)]
        lines[i][j] = '!' + lines[i][j]
        return text(lines), i
    if kind == 'bare-suicide-mark':
        pos = positions(lambda i, j, t, toks: t == '=>'
                        and '=>' not in toks[j + 1:])
        if not pos:
            return None
        i, j = pos[sel % len(pos)]
        if sel % 2:
            lines[i] = lines[i][:j + 1] + ['!']
        else:
            lines[i] = lines[i] + ['&', '!']
        return text(lines), i
    if kind == 'malformed-parameter':
        pos = positions(lambda i, j, t, toks: isatom(t)
                        and t[0] not in '!@')
        if not pos:
            return None
        i, j = pos[sel % len(pos)]
        bad = ['<+>', '<-1>', '<=1>', '<,>'][(sel // 2) % 4]
        lines[i][j] = 'zz' + bad + lines[i][j]
        return text(lines), i
    # atom-level damage: work on the AST of one chain
    flat = [(ci, ni, a) for ci, ch in enumerate(chains)
            for ni, node in enumerate(ch) for a in _atoms(node) if 'n' in a]
    if kind == 'rhs-only-offset':
        lefts = {G.atom_text(a) for ci, ch in enumerate(chains)
                 for ni, node in enumerate(ch) if ni < len(ch) - 1
                 for a in _atoms(node)}
        cand = [(ci, ni, a) for ci, ni, a in flat
                if ni == len(chains[ci]) - 1 and ni > 0 and not a.get('s')]
        cand = [c for c in cand if G.atom_text(dict(c[2], o='[-P1]'))
                not in lefts]
        if not cand:
            return None
        ci, ni, a = cand[sel % len(cand)]
        old = G.atom_text(a)
        new = G.atom_text(dict(a, o='[-P1]'))
        return _replace_atom(chains, ci, ni, old, new), ci
    if kind == 'qualifier-before-offset':
        ci, ni, a = flat[sel % len(flat)]
        new = ('!' if a.get('s') else '') + a['n'] + ':' + (
            a.get('q') or 'fail') + '[-P1]'
        return _replace_atom(chains, ci, ni, G.atom_text(a), new), ci
    if kind == 'finish-optional':
        cand = [c for c in flat if not c[2].get('s')]
        if not cand:
            return None
        ci, ni, a = cand[sel % len(cand)]
        new = a['n'] + a.get('o', '') + ':finish?'
        return _replace_atom(chains, ci, ni, G.atom_text(a), new), ci
    if kind == 'expire-required':
        cand = [c for c in flat if not c[2].get('s')]
        if not cand:
            return None
        ci, ni, a = cand[sel % len(cand)]
        new = a['n'] + a.get('o', '') + (
            ':expire' if sel % 2 else ':submit-fail')
        return _replace_atom(chains, ci, ni, G.atom_text(a), new), ci
    raise AssertionError(kind)


def _replace_atom(chains, ci, ni, old, new):
    out = []
    for i, ch in enumerate(chains):
        parts = []
        for j, node in enumerate(ch):
            toks = node_tokens(node)
            if i == ci and j == ni:
                k = toks.index(old)
                toks[k] = new
            parts.append(''.join(
                f' {t} ' if t in ('&', '|') else t for t in toks))
        out.append(' => '.join(parts))
    return out


def make_conflict(chains, sel):
    """Flip one '?' so that one (task, output) is declared both ways.

    Returns new chains or None.  Only occurrences that the model says
    *declare* are flipped, and only when another declaring occurrence of the
    same (task, output) exists in another chain position.
    """
    occ = {}
    for ci, ch in enumerate(chains):
        last = len(ch) - 1
        for ni, node in enumerate(ch):
            for ai, a in enumerate(_atoms(node)):
                if 'x' in a or a.get('s'):
                    continue
                o = G.std(a.get('q', ''))
                if o in ('finished', 'expired', 'submit-failed'):
                    continue
                declares = (ni == 0 or a.get('q') or a.get('opt')
                            or ni < last)
                if declares:
                    occ.setdefault((a['n'], o), []).append((ci, ni, ai))
    cand = sorted(k for k, v in occ.items() if len(v) >= 2)
    if not cand:
        return None
    key = cand[sel % len(cand)]
    ci, ni, ai = occ[key][(sel // 7) % len(occ[key])]
    new = json.loads(json.dumps(chains))
    a = _atoms(new[ci][ni])[ai]
    if a.get('opt'):
        a['opt'] = False
    else:
        a['opt'] = True
    return new


# ------------------------------------------------------------------ checks
_ERR_BUCKETS = [
    ('Bad graph node format', 'bad-node-format'),
    ('Null task name', 'null-task-name'),
    ('Mismatched parentheses', 'mismatched-parentheses'),
    ("can't be both required and optional", 'both-required-and-optional'),
    ('must both be optional', 'opposites-must-be-optional'),
    ('must be optional', 'must-be-optional'),
    ("can't be optional", 'cannot-be-optional'),
    ('Illegal OR', 'illegal-or'),
    ('Suicide markers', 'suicide-on-left'),
    ("can't trigger both", 'trigger-and-suicide'),
    ('Invalid cycle point offsets', 'rhs-only-offset'),
    ('Leading', 'leading'), ('Dangling', 'dangling'),
    ('Consecutive lines', 'consecutive-continuation'),
    ('operator is', 'double-operator'),
    ('amily', 'family'),
]


def err_bucket(exc):
    msg = str(exc)
    for pat, slug in _ERR_BUCKETS:
        if pat in msg:
            return slug
    return 'other'


def parse(text):
    """-> ('ok', parser) | ('reject', exc) | ('crash', exc)."""
    from cylc.flow.graph_parser import GraphParser
    from cylc.flow.exceptions import GraphParseError, ParamExpandError
    gp = GraphParser()
    try:
        gp.parse_graph(text)
    except (GraphParseError, ParamExpandError) as exc:
        # ParamExpandError: the documented error for <...> problems
        return 'reject', exc
    except RecursionError:
        raise
    except Exception as exc:
        return 'crash', exc
    return 'ok', gp


def normalise(gp):
    nodes = sorted(gp.triggers)
    trig = G.norm_triggers(gp)
    trig = {k: v for k, v in trig.items() if v}
    req = G.apply_default(G.eff_required(gp.task_output_opt),
                          set(nodes) | {k[0] for k in gp.task_output_opt})
    return {'nodes': nodes, 'triggers': trig, 'required': req}


def _overlap_kind(lhs_nodes):
    """Root-cause class for a garbled expression (first that applies)."""
    fin = ('finish', 'finished')
    for node in lhs_nodes:
        atoms = [a for a in _atoms(node) if 'n' in a]
        # ':finish' of a task whose name ends another task's name that also
        # has ':finish' (str.replace of "a:finished" inside "aa:finished")
        for a in atoms:
            for b in atoms:
                if (a.get('q') in fin and b.get('q') in fin
                        and a['n'] != b['n'] and b['n'].endswith(a['n'])
                        and a.get('o', '') == b.get('o', '')):
                    return 'finish-name-suffix'
        # alternative qualifier spelling that is a prefix of another
        # qualifier of the same task up to a '-'
        for a in atoms:
            for b in atoms:
                if a['n'] == b['n'] and a.get('o', '') == b.get('o', ''):
                    qa, qb = a.get('q', ''), b.get('q', '')
                    if qa and qb and qa != qb and qb.startswith(qa) and (
                            not re.match(r'\w', qb[len(qa)])):
                        return 'qualifier-overlap'
        names = {a['n'] for a in atoms}
        for n1 in names:
            for n2 in names:
                if n1 != n2 and (
                    (n2.startswith(n1) and not re.match(r'\w', n2[len(n1)]))
                    or (n2.endswith(n1)
                        and not re.match(r'\w', n2[-len(n1) - 1]))
                ):
                    return 'name-overlap'
        # the same offset trigger written twice / in both spellings
        seen = set()
        for a in atoms:
            if a.get('o'):
                k = (a['n'], a['o'], G.std(a.get('q', '')))
                if k in seen:
                    return 'repeated-offset-trigger'
                seen.add(k)
    return 'other'


def _conflict_cause(chains, model):
    """Suffix naming the one understood cause of accept-vs-reject: the task
    whose :succeeded declaration conflicts is written as a plain name both in
    the middle of one chain and at the end of another."""
    tasks = {p.split(':')[0] for p in model['problems'] if ':succeeded' in p
             or 'succeeded/failed' in p}
    mid, end = set(), set()
    for ch in chains:
        for i, node in enumerate(ch):
            for a in _atoms(node):
                if 'n' in a and not (a.get('q') or a.get('opt')
                                     or a.get('s') or a.get('o')):
                    if 0 < i < len(ch) - 1:
                        mid.add(a['n'])
                    elif i and i == len(ch) - 1:
                        end.add(a['n'])
    if tasks & mid & end:
        return ':plain-node-mid-chain-and-end-of-chain'
    return ''


def faithfulness(gp, model, tag=''):
    viol = []
    got_nodes = set(gp.triggers)
    if got_nodes != model['nodes']:
        viol.append(Violation(
            'C14:node-set-differs' + tag,
            f'parser nodes {sorted(got_nodes)} != graph nodes '
            f'{sorted(model["nodes"])}'))
    rights = {k[0] for k in model['deps']} | {
        r for r, v in gp.triggers.items() if any(e for e in v)}
    for right in sorted(rights):
        for sui in (False, True):
            lhs = model['deps'].get((right, sui), [])
            trees, problems = G.lhs_truth(gp, right, sui)
            bad = [p for p in problems if p[0] in ('syntax', 'trigs')]
            if bad:
                kind = _overlap_kind(lhs)
                viol.append(Violation(
                    f'C14:lhs-expr-garbled:{kind}' + tag,
                    f'triggers of {right}: {bad[0][1]}; written: '
                    f'{[" ".join(node_tokens(x)) for x in lhs]}'))
                continue
            if any(p[0] == 'mixed' for p in problems) or any(
                    not G.is_atom(x) and x[0] == 'mix' for x in lhs):
                continue       # meaning of unparenthesised mixes not asserted
            if not lhs and not trees:
                continue
            keys = set()
            for x in lhs:
                for a in _atoms(x):
                    keys.update(G.atom_keys(a))
            tvars = set()
            for t in trees:
                tvars.update(G.tree_vars(t))
            if tvars - keys or len(keys | tvars) > 14:
                if tvars - keys:
                    viol.append(Violation(
                        'C14:unexpected-trigger-atom' + tag,
                        f'{right}: parser atoms {sorted(tvars - keys)} are '
                        f'not in the written expressions {sorted(keys)}'))
                continue
            tt = G.TT(keys | tvars)
            want = tt.true
            for x in lhs:
                want &= tt.of_expr(x)
            got = tt.true
            for t in trees:
                got &= tt.of_tree(t)
            if want != got:
                exprs = [e for e, (_, s) in gp.triggers.get(right, {}).items()
                         if e and bool(s) == sui]
                viol.append(Violation(
                    'C14:truth-table-differs' + tag,
                    f'{"!" if sui else ""}{right}: parsed {exprs} is not '
                    f'equivalent to written '
                    f'{[" ".join(node_tokens(x)) for x in lhs]}'))
    return viol


def optionality(got_req, model, tag=''):
    want = G.apply_default(model['req'], set(model['nodes']) | set(model['req']))
    got = {k: v for k, v in got_req.items()}
    if want != got:
        diffs = []
        for t in sorted(set(want) | set(got)):
            if want.get(t) != got.get(t):
                diffs.append(f'{t}: declared required-map {want.get(t)} '
                             f'!= parsed {got.get(t)}')
        return [Violation('C14:optionality-differs' + tag, '; '.join(diffs[:3]))]
    return []


def check_case(case, ctx: Ctx) -> CaseResult:
    from vf.cylcutil import reset_globals
    reset_globals()
    if 'atheris_text' in case:
        # replay path of a text found by the Atheris driver
        from vf.gen.c14_atheris import check_text
        found, info = check_text(case['atheris_text'])
        return CaseResult([Violation(s, d) for s, d in found],
                          classes=['atheris-text'], info=info)
    chains = case['chains']
    viol = []
    classes = []
    model = model_of(chains)
    if model['problems']:
        # generator invariant; never expected
        return CaseResult([], inconclusive=True, classes=['gen-inconsistent'])
    via_config = int(jhash(chains)[:8], 16) % 30 == 0
    infos = [{}, {}]
    texts = [render(chains, [], infos[0]), render(chains, 'pairs', infos[1])]
    for ints in case['renders']:
        info = {}
        texts.append(render(chains, ints, info))
        infos.append(info)
    results = [parse(t) for t in texts]
    # classes
    maxlen = max(len(ch) for ch in chains)
    all_atoms = [a for ch in chains for node in ch for a in _atoms(node)]
    has_opt = any(a.get('opt') for a in all_atoms)
    has_cont = any(i.get('cont') for i in infos)
    if maxlen >= 3:
        classes.append('chain>=3')
    if has_opt:
        classes.append('optional-mark')
    if has_cont:
        classes.append('continuation')
    if any(i.get('comment') for i in infos):
        classes.append('comment')
    if any(i.get('regrouped') for i in infos):
        classes.append('chain-split-or-duplicate')
    if any(a.get('o') for a in all_atoms):
        classes.append('offset')
    if any('x' in a for a in all_atoms):
        classes.append('xtrigger')
    if any(a.get('s') for a in all_atoms):
        classes.append('suicide')
    if any(a.get('q') for a in all_atoms):
        classes.append('qualifier')
    if any(_has_or(ch[0]) for ch in chains):
        classes.append('or-expression')
    if any(not G.is_atom(n) and n[0] == 'mix' for ch in chains for n in ch):
        classes.append('mixed-unparenthesised')
    if any('(' in node_tokens(ch[0]) for ch in chains):
        classes.append('parentheses')
    if any(re.search(r'[-+%@]', a.get('n', '')) for a in all_atoms):
        classes.append('exotic-names')
    ndistinct = len(set(texts))
    if ndistinct >= 3:
        classes.append('renderings>=3')
    nontrivial = (maxlen >= 3 or has_cont or has_opt) and ndistinct >= 3

    def show(i):
        return f'rendering {i}:\n{texts[i]}\n'

    for i, (st_, val) in enumerate(results):
        if st_ == 'crash':
            viol.append(Violation(
                'C14:wrong-exception:' + exc_sig(val),
                f'{type(val).__name__}: {val}\n{show(i)}'))
    if True:
        for i, (st_, val) in enumerate(results):
            if st_ == 'reject':
                viol.append(Violation(
                    'C14:valid-graph-rejected:' + err_bucket(val),
                    f'GraphParseError: {val}\n{show(i)}'))
                break
        oks = [i for i, r in enumerate(results) if r[0] == 'ok']
        if oks:
            norms = {i: normalise(results[i][1]) for i in oks}
            base = oks[0]
            for i in oks[1:]:
                for part in ('nodes', 'triggers', 'required'):
                    if norms[i][part] != norms[base][part]:
                        viol.append(Violation(
                            f'C14:presentation-sensitive:{part}',
                            f'{show(base)}gives {part} = '
                            f'{norms[base][part]}\n{show(i)}gives '
                            f'{norms[i][part]}'))
                        break
                else:
                    continue
                break
            gp = results[base][1]
            viol += faithfulness(gp, model)
            viol += optionality(norms[base]['required'], model)
    # malformed rendering
    if 'mal' in case:
        sel = case['mal'][1]
        usable = [k for k in MAL_KINDS if malform(chains, k, sel) is not None]
        # uniform choice among the applicable kinds, by hash of the case
        h = int(jhash([chains, case['mal']])[:8], 16)
        kind = usable[h % len(usable)]
        res = malform(chains, kind, sel)
        if res is not None:
            lines, idx = res
            movable = kind not in ('dangling-arrow', 'leading-arrow')
            if movable and (h >> 12) % 2 == 0:
                lines = lines[:idx] + lines[idx + 1:] + [lines[idx]]
                idx = len(lines) - 1
            classes.append('malformed')
            classes.append('malformed:' + kind)
            if idx == len(lines) - 1:
                classes.append('malformed:on-last-line')
            bad = '\n'.join(lines)
            st_, val = parse(bad)
            if st_ == 'crash':
                viol.append(Violation(
                    'C14:wrong-exception:' + exc_sig(val),
                    f'{type(val).__name__}: {val}\ntext:\n{bad}'))
            elif st_ == 'ok':
                sig = f'C14:malformed-accepted:{kind}'
                if kind == 'null-operand' and re.search(
                        r'[|(][^>]*& +=>', lines[idx]):
                    # the node left of the damage is a conditional expression
                    sig += ':conditional-lhs'
                if kind == 'rhs-only-offset' and '&' in lines[idx].split(
                        '=>')[-1]:
                    # the offset node is one of several &-joined right nodes
                    sig += ':and-list'
                if '=>' not in lines[idx]:
                    sig += ':lone-node-line'
                note = ''
                if movable and idx != len(lines) - 1:
                    moved = lines[:idx] + lines[idx + 1:] + [lines[idx]]
                    if parse('\n'.join(moved))[0] == 'reject':
                        sig = 'C14:malformed-accepted:unless-on-last-line'
                        note = (f' (damage kind {kind}; the same lines with '
                                f'line {idx + 1} moved to the end ARE rejected)')
                viol.append(Violation(
                    sig,
                    f'no GraphParseError for damaged line {idx + 1} of:\n'
                    f'{bad}\n{note}\nparsed triggers: {val.triggers}'))
    cviol, applied = _check_conflict(case, chains)
    viol += cviol
    if applied:
        classes.append('opt-conflict')
    if via_config:
        classes.append('via-config')
        viol += _check_config(case, chains, model, ctx)
    # de-duplicate by signature
    seen, out = set(), []
    for v in viol:
        if v.sig not in seen:
            seen.add(v.sig)
            out.append(v)
    return CaseResult(out, nontrivial=nontrivial, classes=classes,
                      distinct_key=[chains, sorted(set(texts))])


def _check_conflict(case, chains):
    """Variant with one '?' flipped so that an output is declared both ways:
    canonical and all-pairs renderings must agree, and must reject."""
    if 'conflict' not in case:
        return [], False
    new = make_conflict(chains, case['conflict'])
    if new is None:
        return [], False
    model = model_of(new)
    if not model['problems']:
        return [], False
    texts = [render(new, []), render(new, 'pairs')]
    results = [parse(t) for t in texts]
    viol = []
    for (st_, val), t in zip(results, texts):
        if st_ == 'crash':
            viol.append(Violation(
                'C14:wrong-exception:' + exc_sig(val),
                f'{type(val).__name__}: {val}\n{t}'))
    oks = [i for i, r in enumerate(results) if r[0] == 'ok']
    rej = [i for i, r in enumerate(results) if r[0] == 'reject']
    if oks and rej:
        viol.append(Violation(
            'C14:presentation-sensitive:accept-vs-reject'
            + _conflict_cause(new, model),
            f'conflicting optionality ({model["problems"][0]}):\n'
            f'{texts[rej[0]]}\nis rejected ({results[rej[0]][1]}) but\n'
            f'{texts[oks[0]]}\nis accepted'))
    elif len(oks) == 2:
        viol.append(Violation(
            'C14:optionality-conflict-accepted',
            f'{model["problems"][0]} accepted as chains and as pairs:\n'
            f'{texts[0]}'))
    return viol, True


# ------------------------------------------------------------ config level
def _flow(chains, graph_texts):
    custom = {}
    xtrigs = set()
    for ch in chains:
        for node in ch:
            for a in _atoms(node):
                if 'x' in a:
                    xtrigs.add(a['x'])
                    continue
                q = a.get('q', '')
                if q and G.std(q) not in G.STD_OUTPUTS:
                    custom.setdefault(a['n'], set()).add(q)
    lines = ['[scheduler]', '    allow implicit tasks = True',
             '[scheduling]', '    cycling mode = integer',
             '    initial cycle point = 1', '    final cycle point = 3']
    if xtrigs:
        lines.append('    [[xtriggers]]')
        for x in sorted(xtrigs):
            lines.append(f'        {x} = echo(succeed=True)')
    lines.append('    [[graph]]')
    for t in graph_texts:
        lines.append('        P1 = """')
        lines += ['            ' + ln for ln in t.split('\n')]
        lines.append('        """')
    lines.append('[runtime]')
    for name in sorted(custom):
        lines += [f'    [[{name}]]', '        [[[outputs]]]']
        for q in sorted(custom[name]):
            lines.append(f'            {q} = {q}')
    return '\n'.join(lines) + '\n'


def _exp_tree(exp):
    """Dependency._exp nested list -> graphast tree; str leftovers -> error."""
    items, ops = [], set()
    for it in exp:
        if isinstance(it, list):
            items.append(_exp_tree(it))
        elif isinstance(it, str):
            if it in ('&', '|'):
                ops.add(it)
            elif it.startswith('@'):
                # xtrigger label left in an AND-only expression: held as a
                # task xtrigger label, not part of the Dependency -> true
                items.append(('&', []))
            else:
                raise G.ExprSyntax(f'unresolved text {it!r} in dependency')
        else:
            off = it.cycle_point_offset
            key = it.task_name + (f'[{off}]' if off else '') + ':' + it.output
            items.append(('v', key))
    if len(ops) > 1:
        raise G.MixedOps(str(exp))
    if not ops:
        if len(items) != 1:
            raise G.ExprSyntax(f'bad dependency list {exp!r}')
        return items[0]
    return (ops.pop(), items)


def _observe(cfg):
    deps, outs, xt = {}, {}, {}
    for name, td in cfg.taskdefs.items():
        rows = []
        for _seq, dl in td.dependencies.items():
            for dep in dl:
                rows.append([repr(dep._exp), bool(dep.suicide)])
        deps[name] = sorted(rows)
        outs[name] = {o: v[1] for o, v in td.outputs.items()
                      if v[1] is not None}
        labels = set()
        for _seq, ls in td.xtrig_labels.items():
            labels.update(ls)
        xt[name] = sorted(labels)
    edges = set()
    for _seq, es in cfg.edges.items():
        for left, right, sui, cond in es:
            if right is not None:
                edges.add((left, right, bool(sui), bool(cond)))
    return {'deps': deps, 'outputs': outs, 'xtriggers': xt,
            'edges': sorted(edges), 'nodes': sorted(cfg.taskdefs)}


def _check_config(case, chains, model, ctx):
    from cylc.flow.exceptions import CylcError
    from vf.cylcutil import load_config
    viol = []
    streams = [[]] + case['renders'][:1]
    obs, texts = [], []
    for ints in streams:
        parts = render(chains, ints, split=True)
        text = _flow(chains, parts)
        texts.append(text)
        try:
            cfg = load_config(text, ctx.scratch)
        except CylcError as exc:
            obs.append(('reject', f'{type(exc).__name__}: {exc}'))
            continue
        except RecursionError:
            raise
        except Exception as exc:
            viol.append(Violation(
                'C14:config-wrong-exception:' + exc_sig(exc),
                f'{type(exc).__name__}: {exc}\n{text}'))
            obs.append(('crash', None))
            continue
        obs.append(('ok', cfg))
    kinds = {o[0] for o in obs}
    if 'reject' in kinds and any(
            'Xtriggers cannot be used in conditional' in (o[1] or '')
            for o in obs if o[0] == 'reject') and any(
            any('x' in a for a in _atoms(ch[0])) and (
                _has_or(ch[0]) or any(a.get('q') in ('finish', 'finished')
                                      for a in _atoms(ch[0])))
            for ch in chains):
        # documented config-level restriction (finish is an implicit OR)
        ctx.col.rejected += 1
        return viol
    if 'reject' in kinds:
        i = [o[0] for o in obs].index('reject')
        viol.append(Violation(
            'C14:config-valid-graph-rejected',
            f'{obs[i][1]}\n{texts[i]}'))
    oks = [i for i, o in enumerate(obs) if o[0] == 'ok']
    if not oks:
        return viol
    seen = {i: _observe(obs[i][1]) for i in oks}
    base = oks[0]
    for i in oks[1:]:
        for part in ('nodes', 'deps', 'edges', 'outputs', 'xtriggers'):
            if seen[i][part] != seen[base][part]:
                viol.append(Violation(
                    f'C14:config-presentation-sensitive:{part}',
                    f'{texts[base]}\ngives {part} = {seen[base][part]}\n'
                    f'{texts[i]}\ngives {seen[i][part]}'))
                break
        else:
            continue
        break
    cfg = obs[base][1]
    # faithfulness of TaskDef dependencies
    if set(cfg.taskdefs) != model['nodes']:
        viol.append(Violation(
            'C14:config-node-set-differs',
            f'{sorted(cfg.taskdefs)} != {sorted(model["nodes"])}\n'
            f'{texts[base]}'))
    for name, td in cfg.taskdefs.items():
        for sui in (False, True):
            lhs = model['deps'].get((name, sui), [])
            # xtriggers are not part of Dependency objects
            if any(not G.is_atom(x) and x[0] == 'mix' for x in lhs):
                continue
            trees, garbled = [], None
            mixed = False
            for _seq, dl in td.dependencies.items():
                for dep in dl:
                    if bool(dep.suicide) != sui:
                        continue
                    try:
                        trees.append(_exp_tree(dep._exp))
                    except G.MixedOps:
                        mixed = True
                    except G.ExprSyntax as exc:
                        garbled = str(exc)
            if garbled:
                viol.append(Violation(
                    f'C14:lhs-expr-garbled:{_overlap_kind(lhs)}',
                    f'{name}: {garbled}\n{texts[base]}'))
                continue
            if mixed:
                continue
            keys = set()
            for x in lhs:
                for a in _atoms(x):
                    if 'x' not in a:
                        keys.update(G.atom_keys(a))
            tvars = set()
            for t in trees:
                tvars.update(G.tree_vars(t))
            if tvars - keys:
                viol.append(Violation(
                    'C14:config-unexpected-trigger',
                    f'{name}: {sorted(tvars - keys)} not written\n'
                    f'{texts[base]}'))
                continue
            if len(keys) > 14:
                continue
            tt = G.TT(keys)
            want = tt.true
            for x in lhs:
                want &= _tt_no_x(tt, x)
            got = tt.true
            for t in trees:
                got &= tt.of_tree(t)
            if want != got:
                viol.append(Violation(
                    'C14:config-truth-table-differs',
                    f'{"!" if sui else ""}{name}: dependencies '
                    f'{[d._exp for dl in td.dependencies.values() for d in dl]}'
                    f' not equivalent to written '
                    f'{[" ".join(node_tokens(x)) for x in lhs]}\n{texts[base]}'))
        # xtrigger labels
        want_x = sorted({a['x'] for x in model['deps'].get((name, False), [])
                         for a in _atoms(x) if 'x' in a})
        if seen[base]['xtriggers'].get(name, []) != want_x:
            viol.append(Violation(
                'C14:config-xtrigger-labels-differ',
                f'{name}: {seen[base]["xtriggers"].get(name)} != {want_x}\n'
                f'{texts[base]}'))
    want = G.apply_default(model['req'], model['nodes'])
    got = {n: dict(v) for n, v in seen[base]['outputs'].items()}
    want = {n: v for n, v in want.items() if n in model['nodes']}
    if want != got:
        diffs = [f'{t}: declared {want.get(t)} != TaskDef {got.get(t)}'
                 for t in sorted(set(want) | set(got))
                 if want.get(t) != got.get(t)]
        viol.append(Violation(
            'C14:config-outputs-differ',
            '; '.join(diffs[:3]) + '\n' + texts[base]))
    return viol


def _tt_no_x(tt, e):
    """Truth table of an AST expression with xtrigger atoms taken as true."""
    if G.is_atom(e):
        if 'x' in e:
            return tt.true
        return tt.of_expr(e)
    op = G.op_of(e)
    if op == '&':
        r = tt.true
        for c in e[1:]:
            r &= _tt_no_x(tt, c)
        return r
    r = 0
    for c in e[1:]:
        r |= _tt_no_x(tt, c)
    return r


def run_shard(ctx: Ctx):
    n = ctx.share(BUDGET[ctx.tier])
    hyp_run(ctx, cases(), check_case, n)
    if ctx.tier == 'thorough':
        try:
            import atheris  # noqa: F401  (installed by setup.sh into .deps)
        except Exception as exc:
            ctx.col.extra['atheris'] = f'skipped: {exc!r}'
            return
        from vf.gen import c14_atheris
        c14_atheris.run(ctx)
