"""Regenerate MANIFEST.json from the property modules present.

    PYTHONPATH=/verif:/repo /venv/bin/python -m vf.mkmanifest
"""
import importlib
import json
import os

from vf import core

NOT_BUILT_REASON = (
    'check not yet built/registered at this commit (planned in DESIGN.md '
    'section 5; the technique applies)')


def main():
    props = [json.loads(l) for l in open(os.path.join(core.ROOT, 'properties.jsonl'))]
    checks = []
    na = []
    engines = {}
    extra_na = {}
    na_path = os.path.join(core.ROOT, 'not_applicable.json')
    if os.path.exists(na_path):
        extra_na = json.load(open(na_path))
    reg_path = os.path.join(core.ROOT, 'registered.txt')
    registered = set(open(reg_path).read().split())
    for p in props:
        pid = p['id']
        modpath = os.path.join(core.ROOT, 'vf', 'props', pid.lower() + '.py')
        if (pid in extra_na or not os.path.exists(modpath)
                or pid not in registered):
            na.append({'property_id': pid,
                       'reason': extra_na.get(pid, NOT_BUILT_REASON)})
            continue
        mod = importlib.import_module(f'vf.props.{pid.lower()}')
        m = getattr(mod, 'MANIFEST', {})
        eng = m.get('engine', 'P')
        engines.setdefault(eng, []).append(pid)
        ent = {
            'property_id': pid,
            'quick_cmd': f'./check {pid} --tier quick',
            'thorough_cmd': f'./check {pid} --tier thorough',
            'evidence_file': f'/verif/evidence/{pid}.json',
            'replay_cmd_template': f'./check {pid} --replay {{path}}',
            'engine': eng,
            'level_claimed': {
                'category': getattr(mod, 'LEVEL', 'exploration'),
                'text': m.get('level_text') or (
                    'Generated-input search against an explicit oracle: '
                    + getattr(mod, 'RULE', '')),
                'design_ref': f'DESIGN.md section 5, {pid}',
            },
            'level_note': m.get('level_note') or '; '.join(
                getattr(mod, 'ASSUMPTIONS', [])) or 'see DESIGN.md',
            'technique': m.get('technique', 'property-based testing (Hypothesis) against an independent oracle'),
        }
        checks.append(ent)
    eng_desc = {
        'P': ('vf/props (pure-function harness)', 'Hypothesis / exhaustive enumeration of pure cylc functions against independent oracles'),
        'S': ('vf/sim', 'real Scheduler single-stepped on a virtual cluster with virtual clock; generated workflows, outcomes, schedules and command histories'),
        'F': ('vf/props (fs/sqlite/subprocess harness)', 'real filesystem / SQLite / subprocesses with harness-owned faults and schedules'),
    }
    manifest = {
        'version': 1,
        'setup_cmd': './setup.sh',
        'hooks': {
            'guard': 'CYLC_FLOW_VERIF',
            'enable': 'no source hooks: all instrumentation is monkeypatching done inside the check process (./check exports CYLC_FLOW_VERIF=1 for information only)',
            'baseline_off_cmd': 'cd /repo && /venv/bin/python -m pytest -ra -q -p no:cacheprovider --timeout=900 --continue-on-collection-errors',
            'source_commits': [],
            'add_only': True,
        },
        'engines': [
            {'name': k, 'path': eng_desc[k][0], 'serves_properties': sorted(v),
             'kind_free_text': eng_desc[k][1]}
            for k, v in sorted(engines.items())],
        'checks': checks,
        'not_applicable': na,
        'notes': 'All checks: ./check <ID> --tier quick|thorough [--replay FILE]; VERIF_SEED honoured; exit 0 held / 1 VIOLATION / 2 harness error. Known findings: known_findings.json.',
    }
    with open(os.path.join(core.ROOT, 'MANIFEST.json'), 'w') as f:
        json.dump(manifest, f, indent=1)
    print(f'{len(checks)} checks, {len(na)} not_applicable')


if __name__ == '__main__':
    main()
