"""Atheris (libFuzzer) second driver for C23 (ID strings) and C39 (workflow
names) - thorough tier only, shard 0 only.

bytes -> a JSON case of the property module (same shape as the Hypothesis
cases) -> the module's own check_case, i.e. the SAME semantic oracle, not just
crash detection.  The target never raises: the smallest case per (not known)
violation signature is written to a JSON file, and the parent re-checks each
through the plain replay path before reporting it.  Absence of Atheris
findings is not evidence by itself; the Hypothesis part is.

libFuzzer ends the process, so the campaign runs in a child process:
    python -m vf.gen.idname_atheris --child C23 FINDINGS CORPUS -runs=N ...
"""
from __future__ import annotations

import importlib
import json
import os
import subprocess
import sys

SEEDS = {
    'C23': [
        '~user/workflow:wsel//cycle:csel/task:tsel/01:jsel', 'a//1', '//1/a',
        '//cycle/task/4', 'task.123', 't.a.s.k.123:sel', '123/task:task_sel',
        ' workflow // cycle ', 'a///', '~u', '~u/w', 'w//', 'a/b/c//1/t/NN',
        '//2021-01-01T00:00Z/foo:failed', '~u/w//c/*/01', '////', '1/foo',
    ],
    'C39': [
        'foo', 'foo/bar', 'a/../b', '../x', 'a/..', 'foo/run1', 'log',
        '/abs/path', 'a//b', 'é/ü', 'foo/runN', 'a/./b/../../c',
        '_cylc-install', 'x/.service', 'foo\n', '.hidden', '-dash', '1digit',
    ],
}
INSTRUMENT = {
    'C23': ['cylc.flow.id', 'cylc.flow.id_cli'],
    'C39': ['cylc.flow.workflow_files', 'cylc.flow.unicode_rules'],
}
FIELDS = ['user', 'workflow', 'workflow_sel', 'cycle', 'cycle_sel', 'task',
          'task_sel', 'job', 'job_sel']


def decode(prop, data: bytes):
    """bytes -> JSON case (deterministic)."""
    text = data.decode('utf-8', errors='replace').replace('�', '~')
    if prop == 'C39':
        return {'name': text[:270]}
    # C23: first byte selects the kind
    sel = data[0] if data else 0
    body = text[1:] if data else ''
    if sel % 4 in (0, 1):
        return {'kind': 'garbage', 'text': body[:60], 'relative': bool(sel & 4)}
    from vf.props import c23
    parts = body.split('\x1f') if '\x1f' in body else body.split('|')
    if sel % 4 == 2:
        # valid tokens from the pieces (sanitised per field like the
        # Hypothesis generator does: construction, not rejection)
        t = {}
        for name, piece in zip(FIELDS, parts):
            if not piece:
                continue
            if name == 'job':
                digits = ''.join(c for c in piece if c in '0123456789')[:4]
                t[name] = digits or 'NN'
                continue
            excl = c23.FIELD_EXCLUDE[name]
            if name == 'workflow':
                segs = [''.join(c for c in s if c not in excl).strip()
                        for s in piece.split('/')]
                val = '/'.join(s for s in segs if s)
            else:
                val = ''.join(c for c in piece if c not in excl).strip()
            val = val[:12].strip().strip('/')
            if val and '//' not in val:
                t[name] = val
        for k in ('workflow', 'cycle', 'task', 'job'):
            if k + '_sel' in t and k not in t:
                del t[k + '_sel']
        # keep gap-free or gappy as decoded; need at least one real token
        if not any(k in t for k in c23.ORDER) or not c23._valid_tokens(t):
            return {'kind': 'garbage', 'text': body[:60], 'relative': False}
        return {'kind': 'tokens', 'tokens': t, 'pad': ' ' if sel & 8 else ''}
    ids = []
    for piece in parts[1:4]:
        task = ''.join(c for c in piece if c not in '~:/\n').strip() or 'x'
        cyc = ''.join(c for c in piece[::-1] if c not in '~.:/\n').strip()
        task = task[:8].strip() or 'x'
        cyc = ('1' + cyc)[:1 + len(piece) % 5].strip()
        ids.append({'form': 'dot' if len(piece) % 2 else 'slash',
                    'task': task, 'cycle': cyc})
    if not ids:
        ids = [{'form': 'slash', 'task': 'foo', 'cycle': '12'}]
    wf = ''.join(c for c in (parts[0] if parts else '') if c not in ':~\n/'
                 )[:10].strip() or 'w'
    return {'kind': 'legacy', 'workflow': wf, 'ids': ids}


def _child(argv):
    prop, findings_path, corpus = argv[0], argv[1], argv[2]
    sys.path.insert(0, os.path.join(
        os.environ.get('VF_ROOT', '/verif'), '.deps'))
    import atheris
    import logging
    with atheris.instrument_imports(include=INSTRUMENT[prop]):
        for m in INSTRUMENT[prop]:
            importlib.import_module(m)
    logging.getLogger('cylc').setLevel(logging.CRITICAL)
    from vf import core
    mod = importlib.import_module(f'vf.props.{prop.lower()}')
    known = core.known_sigs(prop)
    ctx = core.Ctx(prop, 'thorough', 0, 0, 1, os.path.dirname(findings_path),
                   core.Collector(prop))
    seen = {}
    stats = {'runs': 0, 'known_hits': 0, 'nontrivial': 0}

    def dump():
        with open(findings_path, 'w') as f:
            json.dump({'findings': seen, 'stats': stats}, f)

    def one(data):
        case = decode(prop, data)
        stats['runs'] += 1
        try:
            res = mod.check_case(case, ctx)
            viol = [(v.sig, v.detail) for v in res.violations]
            if res.nontrivial:
                stats['nontrivial'] += 1
        except RecursionError:
            raise
        except Exception as exc:  # harness-level crash inside the oracle
            viol = [(f'{prop}:atheris-check-crash:{core.exc_sig(exc, "vf")}',
                     repr(exc))]
        new = False
        for sig, _ in viol:
            if sig in known:
                stats['known_hits'] += 1
                continue
            size = len(json.dumps(case))
            if sig not in seen or size < len(json.dumps(seen[sig])):
                seen[sig] = case
                new = True
        if new or stats['runs'] % 5000 == 0:
            dump()

    atheris.Setup([sys.argv[0], corpus] + argv[3:], one)
    try:
        atheris.Fuzz()
    finally:
        dump()


def run(ctx, prop, runs=200000, max_time=150, max_len=96):
    """One campaign in a child process; findings re-checked by replay."""
    if ctx.shard != 0 or ctx.tier != 'thorough':
        return
    try:
        sys.path.insert(0, os.path.join(
            os.environ.get('VF_ROOT', '/verif'), '.deps'))
        import atheris  # noqa: F401
    except Exception as exc:
        ctx.col.extra.setdefault('atheris', []).append(
            {'skipped': f'atheris not importable: {exc!r}'})
        return
    runs = int(os.environ.get('VF_ATHERIS_RUNS', runs))
    if prop == 'C39':
        max_len = 300
    col = ctx.col
    base = os.path.join(ctx.scratch, 'atheris')
    corpus = os.path.join(base, 'corpus')
    os.makedirs(corpus, exist_ok=True)
    for i, sd in enumerate(SEEDS[prop]):
        for j, prefix in enumerate(
                [b''] if prop == 'C39' else [b'\x00', b'\x04', b'\x02', b'\x03']):
            with open(os.path.join(corpus, f'seed{i}_{j}'), 'wb') as f:
                f.write(prefix + sd.replace('/', '/').encode())
    findings = os.path.join(base, 'findings.json')
    cmd = [sys.executable, '-m', 'vf.gen.idname_atheris', '--child', prop,
           findings, corpus, f'-runs={runs}', f'-seed={ctx.derived_seed}',
           f'-max_total_time={max_time}', f'-max_len={max_len}',
           f'-artifact_prefix={base}/']
    try:
        proc = subprocess.run(cmd, cwd=base, stdout=subprocess.PIPE,
                              stderr=subprocess.STDOUT, timeout=max_time + 120)
        tail = proc.stdout.decode(errors='replace')[-160:]
    except subprocess.TimeoutExpired:
        tail = 'timeout'
    rec = {'cmd': ' '.join(cmd[1:]), 'tail': tail}
    try:
        with open(findings) as f:
            data = json.load(f)
    except Exception as exc:
        rec['error'] = repr(exc)
        col.extra.setdefault('atheris', []).append(rec)
        return
    rec['stats'] = data.get('stats')
    rec['finding_sigs'] = sorted(data.get('findings', {}))
    col.extra.setdefault('atheris', []).append(rec)
    mod = importlib.import_module(f'vf.props.{prop.lower()}')
    for sig, case in sorted(data.get('findings', {}).items()):
        if ':atheris-check-crash:' in sig:
            rec.setdefault('check_crashes', []).append([sig, case])
            continue
        res = mod.check_case(case, ctx)
        col.record(case, res)
        for v in col.filter_known(res.violations):
            col.add_violation(v, case)


if __name__ == '__main__':
    if len(sys.argv) > 1 and sys.argv[1] == '--child':
        _child(sys.argv[2:])
