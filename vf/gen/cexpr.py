"""Boolean and/or expression trees + independent models for completion
expressions (shared by C11 and C12).

Tree (JSON-able):  leaf = "name" (str);  node = ["and"|"or", child, child, ...]
(n-ary, >= 2 children).  The tree is the ground truth; strings handed to
cylc are *rendered* from it, so the oracle never parses what cylc parses.
"""
from __future__ import annotations

from itertools import product
from typing import Dict, Iterable, Iterator, List, Optional

STD_OUTPUTS = ('expired', 'submitted', 'submit-failed', 'started',
               'succeeded', 'failed')
FINALS = ('succeeded', 'failed', 'submit-failed', 'expired')


def compvar(output: str) -> str:
    """Documented rule: hyphens become underscores in completion variables."""
    return output.replace('-', '_')


# -- trees -------------------------------------------------------------------

def ev(tree, val: Dict[str, bool]) -> bool:
    """Evaluate a tree under an assignment (independent of Python's eval)."""
    if isinstance(tree, str):
        return bool(val[tree])
    op = tree[0]
    if op == 'and':
        for c in tree[1:]:
            if not ev(c, val):
                return False
        return True
    if op == 'or':
        for c in tree[1:]:
            if ev(c, val):
                return True
        return False
    raise ValueError(op)


def leaves(tree) -> List[str]:
    if isinstance(tree, str):
        return [tree]
    out = []
    for c in tree[1:]:
        out += leaves(c)
    return out


def ops(tree) -> List[str]:
    if isinstance(tree, str):
        return []
    out = [tree[0]]
    for c in tree[1:]:
        out += ops(c)
    return out


def render(tree, style: int = 0) -> str:
    """Render as a Python boolean expression.

    style 0: minimal parentheses (`and` binds tighter than `or`; nested
             same-operator children keep their parentheses)
    style 1: every compound child parenthesised
    style 2: as 0, flattening same-operator children (associativity), with
             irregular whitespace and an outer pair of parentheses
    """
    if isinstance(tree, str):
        return tree
    op = tree[0]
    parts = []
    for c in tree[1:]:
        s = render(c, style)
        if isinstance(c, str):
            parts.append(s)
        elif style == 1:
            parts.append(f'({s})')
        elif style == 2:
            # strip the outer parens added by the recursive call
            inner = s[1:-1]
            if c[0] == op:
                parts.append(inner)
            elif c[0] == 'or':      # or under and: needed
                parts.append(f'( {inner} )')
            else:                   # and under or: not needed
                parts.append(inner)
        else:
            if c[0] == 'and' and op == 'or':
                parts.append(s)
            else:
                parts.append(f'({s})')
    if style == 2:
        return '(' + f'  {op} '.join(parts) + ')'
    return f' {op} '.join(parts)


def enum_trees(nleaves: int, variables: Iterable[str]) -> Iterator:
    """All binary and/or trees with exactly `nleaves` leaves."""
    variables = list(variables)

    def rec(k):
        if k == 1:
            for v in variables:
                yield v
            return
        for i in range(1, k):
            for op in ('and', 'or'):
                for left in rec(i):
                    for right in rec(k - i):
                        yield [op, left, right]
    return rec(nleaves)


def count_trees(nleaves: int, nvars: int) -> int:
    from math import comb
    k = nleaves
    catalan = comb(2 * (k - 1), k - 1) // k
    return catalan * 2 ** (k - 1) * nvars ** k


# -- classification model (C12 statement) --------------------------------------

def classify(tree, all_vars: Iterable[str]) -> Dict[str, Optional[bool]]:
    """compvar -> True (optional) / False (required) / None (unreferenced).

    From the statement: a referenced output is required exactly when the
    expression is false with that output alone missing, expired and
    submit_failed being treated as absent; optional when referenced and not
    required; unreferenced otherwise.
    """
    used = set(leaves(tree))
    all_vars = set(all_vars) | used
    out: Dict[str, Optional[bool]] = {}
    for v in all_vars:
        if v not in used:
            out[v] = None
            continue
        val = {w: (w != v) for w in all_vars}
        val['expired'] = False
        val['submit_failed'] = False
        out[v] = ev(tree, val)
    return out


def classify_fn(fn, referenced: Iterable[str], all_vars: Iterable[str]):
    """Same as classify() for a completion rule given as a set-function."""
    referenced = set(referenced)
    all_vars = set(all_vars) | referenced
    out: Dict[str, Optional[bool]] = {}
    for v in all_vars:
        if v not in referenced:
            out[v] = None
            continue
        present = {
            w for w in all_vars
            if w != v
            and w not in ('expired', 'submit_failed', 'submit-failed')}
        out[v] = bool(fn(present))
    return out


# -- default completion rule model (C11 statement) ---------------------------

class DefaultRule:
    """The documented default completion rule, as a case analysis on sets.

    `decl` maps output (trigger name) -> True (required) / False (optional),
    outputs not declared in the graph are absent from it.  If neither
    succeeded nor failed is declared, success is required (documented).
    """

    def __init__(self, decl: Dict[str, bool]):
        decl = dict(decl)
        if 'succeeded' not in decl and 'failed' not in decl:
            decl['succeeded'] = True
        self.decl = decl
        self.required = {o for o, r in decl.items() if r}
        self.tol_fail = (
            decl.get('succeeded') is False or decl.get('failed') is False)
        self.tol_sf = (
            decl.get('submitted') is False
            or decl.get('submit-failed') is False)
        self.tol_exp = decl.get('expired') is False

    def referenced(self):
        ref = set(self.required)
        if self.tol_fail:
            ref |= {'succeeded', 'failed'}
        if self.tol_sf:
            ref.add('submit-failed')
        if self.tol_exp:
            ref.add('expired')
        return ref

    def explain(self, done):
        """(True/False/None, reason); None where the statement is silent.

        `done` = set of completed outputs (trigger names).
        """
        done = set(done)
        if 'failed' in done and self.tol_fail:
            return True, 'failure-tolerated'
        if 'submit-failed' in done and self.tol_sf:
            return True, 'submit-failure-tolerated'
        if 'expired' in done and self.tol_exp:
            return True, 'expiry-tolerated'
        if not self.required <= done:
            # every required output is required
            return False, 'required-output-missing'
        # all required outputs present, no tolerated outcome present
        if 'succeeded' in done or 'failed' in done:
            # it ran to an outcome and produced all required outputs
            return True, 'all-required-present'
        if done & set(FINALS):
            # finished only through an un-tolerated submit-failure / expiry
            # (required is a subset of done, so success is optional here)
            return False, 'untolerated-preexec-outcome-only'
        return None, 'not-finished'

    def complete(self, done) -> Optional[bool]:
        return self.explain(done)[0]


def valid_decl(decl: Dict[str, bool]) -> bool:
    """Graph optionality declarations the graph parser accepts."""
    if decl.get('expired') is True or decl.get('submit-failed') is True:
        return False
    for a, b in (('succeeded', 'failed'), ('submitted', 'submit-failed')):
        if a in decl and b in decl and (decl[a] or decl[b]):
            return False
    return True


def graph_lines(task: str, decl: Dict[str, bool], sink: str = 'd') -> List[str]:
    """Graph lines declaring each output of `task` required / optional."""
    lines = []
    for i, (out, req) in enumerate(decl.items()):
        lines.append(f'{task}:{out}{"" if req else "?"} => {sink}{i}')
    return lines


def all_subsets(items):
    items = list(items)
    for bits in product((False, True), repeat=len(items)):
        yield [o for o, b in zip(items, bits) if b]
