"""Atheris (libFuzzer) second driver for C14 - thorough tier only.

bytes -> graph text (token-dictionary decoding) -> GraphParser.parse_graph.
Oracle inside the target:
  * any exception other than GraphParseError / ParamExpandError is a finding
    ('C14:wrong-exception:<type@site>', same signature as the Hypothesis part);
  * (informational, never a violation) if the text is accepted and every
    recorded expression is well formed, re-rendering the parse result and
    parsing it again must give the same triggers; counts go to the evidence.
The target never raises, so one campaign collects all findings; they are
written to a JSON-lines file and the parent re-checks each one through the
plain replay path (`check_case({'atheris_text': ...})`) before reporting.

libFuzzer ends the process, so the campaign runs in a child process:
    python -m vf.gen.c14_atheris --child FINDINGS CORPUS -runs=N -seed=S ...
"""
from __future__ import annotations

import json
import os
import subprocess
import sys

TOKS = ['a', 'b', 'foo', 'foo-bar', '=>', '&', '|', '(', ')', '!', '?',
        ':fail', ':x', ':succeed', ':finish', ':submit-fail', ':expire',
        '[-P1]', '[^]', '@x', '<m>', '<m-1>', '<m=1>', '<n>', '\n', ' ', '#',
        ' => ', '&&', '||', ':', '[', ']', '<', '>', '-', '+', '1', ',', '=',
        'FAM:succeed-all', 'FAM:fail-any', 'FAM', '\t', '::', '^', '$', '%',
        '=> \n', '\n =>', '-32768', '_']
SEEDS = [
    'a => b => c', 'a | b => c & d => e', 'a:x & b? & c => d',
    '(foo:start | bar) => baz', 'foo[-P1]:fail => bar', 'a => !b',
    '@x => a', 'pre => foo<m> => bar<m,n>', 'bar<m-1> => bar<m>',
    'FAM:succeed-all => x', 'a => FAM:fail-any?', 'foo &\n bar => baz',
    'foo\n=> bar', 'a # c\nb', 'a:finish => b', 'a:expire? => b',
    'foo<m=1> => baz', 'a & (b | c) => d',
]
FAMS = {'FAM': ['m1', 'm2']}
PARAMS = ({'m': [0, 1], 'n': ['cat', 'dog']},
          {'m': '_m%(m)d', 'n': '_%(n)s'})


def decode(data: bytes) -> str:
    out = []
    for b in data[:120]:
        if b < len(TOKS):
            out.append(TOKS[b])
        elif b < 128:
            out.append(chr(b))
        else:
            out.append(TOKS[b % len(TOKS)])
    return ''.join(out)


def check_text(text: str):
    """-> (violations [(sig, detail)], info dict). Plain, replayable."""
    from cylc.flow.graph_parser import GraphParser
    from cylc.flow.exceptions import GraphParseError, ParamExpandError
    from vf.core import exc_sig
    from vf.gen import graphast as G
    viol = []
    info = {}
    for label, kw in (('plain', {}),
                      ('fam+params', {'family_map': FAMS,
                                      'parameters': PARAMS})):
        gp = GraphParser(**kw)
        try:
            gp.parse_graph(text)
        except (GraphParseError, ParamExpandError):
            info[label] = 'rejected'
            continue
        except RecursionError:
            raise
        except Exception as exc:
            viol.append((
                'C14:wrong-exception:' + exc_sig(exc),
                f'{type(exc).__name__}: {exc}\nGraphParser({label}) text:\n'
                f'{text!r}'))
            info[label] = 'crash'
            continue
        info[label] = 'accepted'
        if label != 'plain':
            continue
        # informational fixed-point check
        lines, well = [], True
        for right, val in gp.triggers.items():
            for expr, (trigs, sui) in val.items():
                if not expr:
                    lines.append(right)
                    continue
                try:
                    t = G.parse_expr_string(expr)
                    if set(G.tree_vars(t)) != set(trigs):
                        well = False
                except G.MixedOps:
                    pass
                except G.ExprSyntax:
                    well = False
                lines.append(f'{expr} => {"!" if sui else ""}{right}')
        if not well:
            info['fixed-point'] = 'malformed-expression-recorded'
            continue
        gp2 = GraphParser()
        try:
            gp2.parse_graph('\n'.join(lines))
            same = G.norm_triggers(gp) == G.norm_triggers(gp2) and (
                set(gp.triggers) == set(gp2.triggers))
            info['fixed-point'] = 'yes' if same else 'no'
        except Exception as exc:
            info['fixed-point'] = 'reparse-' + type(exc).__name__
    return viol, info


def _child(argv):
    findings_path, corpus = argv[0], argv[1]
    sys.path.insert(0, os.path.join(
        os.environ.get('VF_ROOT', '/verif'), '.deps'))
    import atheris
    with atheris.instrument_imports(
            include=['cylc.flow.graph_parser', 'cylc.flow.param_expand']):
        import cylc.flow.graph_parser  # noqa
        import cylc.flow.param_expand  # noqa
    seen = {}
    stats = {}

    def one(data):
        text = decode(data)
        viol, info = check_text(text)
        fp = info.get('fixed-point')
        if fp:
            stats[fp] = stats.get(fp, 0) + 1
            if fp not in ('yes', 'malformed-expression-recorded') and (
                    ('fp:' + fp) not in seen
                    or len(text) < len(seen['fp:' + fp])):
                seen['fp:' + fp] = text
        new = False
        for sig, _detail in viol:
            if sig not in seen or len(text) < len(seen[sig]):
                seen[sig] = text
                new = True
        if new or (sum(stats.values()) % 5000 == 1):
            with open(findings_path, 'w') as f:
                json.dump({'findings': seen, 'stats': stats}, f)

    atheris.Setup([sys.argv[0], corpus] + argv[2:], one)
    try:
        atheris.Fuzz()
    finally:
        with open(findings_path, 'w') as f:
            json.dump({'findings': seen, 'stats': stats}, f)


def run(ctx, runs=120000, max_time=150):
    """Run one campaign in a child process (shards 0-3 only)."""
    if ctx.shard > 3:
        return
    runs = int(os.environ.get('VF_ATHERIS_RUNS', runs))
    col = ctx.col
    base = os.path.join(ctx.scratch, 'atheris')
    corpus = os.path.join(base, 'corpus')
    os.makedirs(corpus, exist_ok=True)
    for i, sd in enumerate(SEEDS):
        with open(os.path.join(corpus, f'seed{i}'), 'wb') as f:
            f.write(sd.encode())
    findings = os.path.join(base, 'findings.json')
    cmd = [sys.executable, '-m', 'vf.gen.c14_atheris', '--child', findings,
           corpus, f'-runs={runs}', f'-seed={ctx.derived_seed}',
           f'-max_total_time={max_time}', '-max_len=120',
           f'-artifact_prefix={base}/']
    try:
        proc = subprocess.run(cmd, cwd=base, stdout=subprocess.PIPE,
                              stderr=subprocess.STDOUT, timeout=max_time + 120)
        tail = proc.stdout.decode(errors='replace')[-120:]
    except subprocess.TimeoutExpired:
        tail = 'timeout'
    rec = {'cmd': ' '.join(cmd[1:]), 'tail': tail}
    try:
        with open(findings) as f:
            data = json.load(f)
    except Exception as exc:
        rec['error'] = repr(exc)
        col.extra.setdefault('atheris', []).append(rec)
        return
    rec['stats'] = data.get('stats')
    rec['finding_sigs'] = sorted(data.get('findings', {}))
    col.extra.setdefault('atheris', []).append(rec)
    # re-check through the plain replay path
    from vf.props import c14
    for sig, text in sorted(data.get('findings', {}).items()):
        if sig.startswith('fp:'):
            continue
        case = {'atheris_text': text}
        res = c14.check_case(case, ctx)
        col.record(case, res)
        for v in col.filter_known(res.violations):
            col.add_violation(v, case)


if __name__ == '__main__':
    if len(sys.argv) > 1 and sys.argv[1] == '--child':
        _child(sys.argv[2:])
