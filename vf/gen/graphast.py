"""Graph-expression helpers shared by C14 / C15 / C34.

Independent of cylc: own qualifier table, own tokenizer / parser for the
trigger-expression strings that GraphParser produces, bit-parallel truth
tables, and normalisation of GraphParser results.

JSON shapes
-----------
atom  : {'n': name, 'o': '' | '[-P1]', 'q': '' | qualifier, 'opt': bool,
         's': bool (suicide, RHS only)}   or   {'x': 'label'} (xtrigger)
expr  : atom | ['&', expr, expr, ...] | ['|', expr, expr, ...]
        (nested operator nodes are always printed in parentheses; a top-level
        operator node is printed in parentheses if it is ['&p', ...]/['|p', ...])
"""
from __future__ import annotations

import re

# alternative -> standard output names (written out here, not imported)
STD = {
    'succeed': 'succeeded', 'fail': 'failed', 'start': 'started',
    'submit': 'submitted', 'submit-fail': 'submit-failed',
    'expire': 'expired', 'finish': 'finished',
}
STD_OUTPUTS = set(STD.values())


def std(q: str) -> str:
    """Standard output name of a (task) qualifier; '' means succeeded."""
    if not q:
        return 'succeeded'
    return STD.get(q, q)


# ---------------------------------------------------------------- printing
def atom_text(a: dict) -> str:
    if 'x' in a:
        return '@' + a['x']
    s = ('!' if a.get('s') else '') + a['n'] + a.get('o', '')
    if a.get('q'):
        s += ':' + a['q']
    if a.get('opt'):
        s += '?'
    return s


def is_atom(e) -> bool:
    return isinstance(e, dict)


def op_of(e) -> str:
    return e[0][0]


def expr_tokens(e, top=True) -> list:
    """Token list: atom strings, '&', '|', '(', ')'."""
    if is_atom(e):
        return [atom_text(e)]
    op = op_of(e)
    paren = (not top) or e[0].endswith('p')
    out = ['('] if paren else []
    for i, ch in enumerate(e[1:]):
        if i:
            out.append(op)
        out += expr_tokens(ch, top=False)
    if paren:
        out.append(')')
    return out


def atoms_of(e) -> list:
    if is_atom(e):
        return [e]
    out = []
    for ch in e[1:]:
        out += atoms_of(ch)
    return out


def has_or(e) -> bool:
    if is_atom(e):
        return False
    return op_of(e) == '|' or any(has_or(c) for c in e[1:])


# ------------------------------------------------------------- truth tables
def atom_keys(a: dict) -> list:
    """Variables of an atom, in the spelling GraphParser uses for triggers."""
    if 'x' in a:
        return ['@' + a['x']]
    o = std(a.get('q', ''))
    base = a['n'] + a.get('o', '')
    if o == 'finished':
        return [base + ':succeeded', base + ':failed']
    return [base + ':' + o]


class TT:
    """Bit-parallel truth tables over a fixed variable list."""

    def __init__(self, variables):
        self.vars = sorted(set(variables))
        n = len(self.vars)
        if n > 14:
            raise ValueError('too many variables')
        self.n = n
        self.rows = 1 << n
        self.true = (1 << self.rows) - 1
        self.mask = {}
        for i, v in enumerate(self.vars):
            half = 1 << i
            block = ((1 << half) - 1) << half
            period = half * 2
            m = 0
            for k in range(self.rows // period):
                m |= block << (k * period)
            self.mask[v] = m

    def var(self, key):
        return self.mask[key]

    def of_expr(self, e) -> int:
        """Truth table of an AST expression."""
        if is_atom(e):
            ks = atom_keys(e)
            r = 0
            for k in ks:       # finish = succeeded | failed
                r |= self.mask[k]
            return r
        op = op_of(e)
        if op == '&':
            r = self.true
            for c in e[1:]:
                r &= self.of_expr(c)
        else:
            r = 0
            for c in e[1:]:
                r |= self.of_expr(c)
        return r

    def of_tree(self, t) -> int:
        """Truth table of a tree from parse_expr_string."""
        kind = t[0]
        if kind == 'v':
            return self.mask[t[1]]
        if kind == '&':
            r = self.true
            for c in t[1]:
                r &= self.of_tree(c)
            return r
        r = 0
        for c in t[1]:
            r |= self.of_tree(c)
        return r


# ---------------------------------------------- parsing cylc's expr strings
_SPLIT = re.compile(r'([&|()])')


class ExprSyntax(Exception):
    pass


class MixedOps(Exception):
    """& and | mixed at one level without parentheses."""


def parse_expr_string(s: str):
    """'(a:x|b:y)&c:z' -> ('&', [('|', [('v','a:x'),('v','b:y')]), ('v','c:z')]).

    Raises ExprSyntax for malformed text, MixedOps for an unparenthesised
    mixture (whose meaning is not asserted).
    """
    toks = [t.strip() for t in _SPLIT.split(s)]
    toks = [t for t in toks if t]
    pos = 0

    def expr():
        nonlocal pos
        items = [term()]
        ops = set()
        while pos < len(toks) and toks[pos] in '&|':
            ops.add(toks[pos])
            pos += 1
            items.append(term())
        if len(ops) > 1:
            raise MixedOps(s)
        if not ops:
            return items[0]
        return (ops.pop(), items)

    def term():
        nonlocal pos
        if pos >= len(toks):
            raise ExprSyntax(f'unexpected end in {s!r}')
        t = toks[pos]
        if t == '(':
            pos += 1
            e = expr()
            if pos >= len(toks) or toks[pos] != ')':
                raise ExprSyntax(f'missing ) in {s!r}')
            pos += 1
            return e
        if t in '&|)':
            raise ExprSyntax(f'unexpected {t!r} in {s!r}')
        pos += 1
        return ('v', t)

    e = expr()
    if pos != len(toks):
        raise ExprSyntax(f'trailing {toks[pos:]} in {s!r}')
    return e


def tree_vars(t) -> list:
    if t[0] == 'v':
        return [t[1]]
    out = []
    for c in t[1]:
        out += tree_vars(c)
    return out


# ------------------------------------------------- GraphParser normalisation
def norm_triggers(gp) -> dict:
    """{right: sorted [(expr, sorted trigs, suicide)]} without lone-node rows."""
    out = {}
    for right, val in gp.triggers.items():
        rows = []
        for expr, (trigs, suicide) in val.items():
            if expr == '':
                continue
            rows.append([expr, sorted(trigs), bool(suicide)])
        out[right] = sorted(rows)
    return out


def eff_required(task_output_opt: dict) -> dict:
    """{task: {output: True(required)|False(optional)}} + TaskDef default.

    TaskDef.tweak_outputs: if neither succeeded nor failed is set by the
    graph, succeeded is required.  Applied here only to tasks that appear in
    `task_output_opt`; callers add the remaining nodes themselves.
    """
    out = {}
    for (name, output), val in task_output_opt.items():
        out.setdefault(name, {})[output] = not val[0]
    return out


def apply_default(req: dict, nodes) -> dict:
    """Add the succeeded-required default for every node in `nodes`."""
    out = {n: dict(v) for n, v in req.items()}
    for n in nodes:
        d = out.setdefault(n, {})
        if 'succeeded' not in d and 'failed' not in d:
            d['succeeded'] = True
    return out


def lhs_truth(gp, right: str, suicide: bool = False):
    """(variables, tree list) of all non-lone triggers of `right`.

    Returns (trees, problems): trees = parsed expression trees (to be ANDed);
    problems = list of (kind, text).
    """
    trees, problems = [], []
    for expr, (trigs, sui) in gp.triggers.get(right, {}).items():
        if expr == '' or bool(sui) != suicide:
            continue
        try:
            t = parse_expr_string(expr)
        except MixedOps:
            problems.append(('mixed', expr))
            continue
        except ExprSyntax as exc:
            problems.append(('syntax', f'{expr!r}: {exc}'))
            continue
        vs = set(tree_vars(t))
        if vs != set(trigs):
            problems.append((
                'trigs', f'expression {expr!r} has atoms {sorted(vs)} but '
                f'trigger list is {sorted(set(trigs))}'))
            continue
        trees.append(t)
    return trees, problems
