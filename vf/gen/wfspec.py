"""Workflow AST (plain JSON), Hypothesis generator, renderer to flow.cylc.

The AST is integer based; 'datetime' mode renders integer point n as
2000-01-(n) style dates (n -> ICP + (n-1) days) so that one reference model
(vf/sim/model.py) serves both cycling modes.

spec = {
  'mode': 'integer'|'datetime',
  'icp': 1, 'fcp': 2..6,
  'tasks': [names...]                      (rank order = list order)
  'sections': [ {'rec': REC, 'lines': [ {'lhs': TREE|None, 'rhs': [names]} ]} ]
  'custom': {task: {outname: message}},
  'opt': {task: {'succ': bool, 'submit': bool, 'fail_required': bool,
                 'custom': {outname: bool}}},      (True = optional)
  'retries': {task: {'exec': n, 'submit': m}},
  'extra': {...}                           (profile specific: runahead, queues, ...)
}
REC  = {'kind': 'P', 'step': k, 'off': j, 'excl': [points]} | {'kind': 'R1', 'at': n}
TREE = {'op': '&'|'|', 'args': [TREE, TREE...]} | ATOM
ATOM = {'t': name, 'off': int | None, 'abs': int | None, 'out': outname}
        off: relative offset in cycles (negative = earlier); abs: absolute point
"""
from __future__ import annotations

from typing import Dict, List, Optional

from hypothesis import strategies as st

NAME_POOL = ['a', 'ab', 'a-b', 'a_b', 'b', 'b+a', 'a%b', 'foo', 'foo2', 'x@1',
             'fo', 'oo']
STD_OUTS = ['succeeded', 'failed', 'started', 'submitted', 'submit-failed',
            'finished']


# ---------------------------------------------------------------------------
# recurrence point sets (the model's own arithmetic)

def rec_points(rec: dict, icp: int, fcp: int) -> List[int]:
    if rec['kind'] == 'R1':
        at = rec['at']
        return [at] if icp <= at <= fcp else []
    pts = []
    p = icp + rec.get('off', 0)
    while p <= fcp:
        if p >= icp and p not in rec.get('excl', []):
            pts.append(p)
        p += rec['step']
    return pts


def render_point(spec: dict, n: int) -> str:
    if spec['mode'] == 'integer':
        return str(n)
    # datetime: ICP = 2000-01-01T00Z, one day per integer step
    import datetime
    d = datetime.date(2000, 1, 1) + datetime.timedelta(days=n - 1)
    return d.strftime('%Y%m%dT0000Z')


def render_interval(spec: dict, k: int) -> str:
    return f'P{k}' if spec['mode'] == 'integer' else f'P{k}D'


def render_rec(spec: dict, rec: dict) -> str:
    icp, fcp = spec['icp'], spec['fcp']
    if rec['kind'] == 'R1':
        at = rec['at']
        if at == icp and rec.get('form', 0) == 0:
            return 'R1'
        if at == icp:
            return 'R1/^'
        if at == fcp and rec.get('form', 0) == 0:
            return 'R1/$'
        return 'R1/' + render_point(spec, at)
    s = render_interval(spec, rec['step'])
    off = rec.get('off', 0)
    if off:
        s = '+' + render_interval(spec, off) + '/' + s
    excl = rec.get('excl') or []
    if len(excl) == 1:
        s += '!' + render_point(spec, excl[0])
    elif excl:
        s += '!(' + ','.join(render_point(spec, e) for e in excl) + ')'
    return s


def render_atom(spec: dict, atom: dict) -> str:
    s = atom['t']
    if atom.get('abs') is not None:
        if atom['abs'] == spec['icp'] and atom.get('form', 0) == 0:
            s += '[^]'
        else:
            s += '[' + render_point(spec, atom['abs']) + ']'
    elif atom.get('off'):
        k = atom['off']
        s += '[' + ('-' if k < 0 else '+') + render_interval(spec, abs(k)) + ']'
    out = atom['out']
    opt = atom_optional(spec, atom)
    if out == 'succeeded' and atom.get('implicit', True):
        s += '?' if opt else ''
    else:
        qual = {'succeeded': 'succeed', 'failed': 'fail', 'started': 'start',
                'submitted': 'submit', 'submit-failed': 'submit-fail',
                'finished': 'finish'}.get(out, out)
        if atom.get('longform'):
            qual = out
        s += ':' + qual + ('?' if opt else '')
    return s


def atom_optional(spec: dict, atom: dict) -> bool:
    o = spec['opt'].get(atom['t'], {})
    out = atom['out']
    if out in ('succeeded', 'failed'):
        return bool(o.get('succ')) and not o.get('fail_required')
    if out == 'submit-failed':
        return True
    if out == 'submitted':
        return bool(o.get('submit'))
    if out in ('started', 'finished'):
        return False
    return bool(o.get('custom', {}).get(out))


def render_tree(spec: dict, tree: Optional[dict], top: bool = True) -> str:
    if tree is None:
        return ''
    if 'fam' in tree:
        # family trigger: rendered as FAM:<qualifier>, modelled as the
        # AND / OR over its members (tree['args'])
        opt = atom_optional(spec, tree['args'][0])
        return f"{tree['fam']}:{tree['q']}" + ('?' if opt else '')
    if 'op' in tree:
        inner = f' {tree["op"]} '.join(
            render_tree(spec, a, False) for a in tree['args'])
        return inner if top else f'({inner})'
    return render_atom(spec, tree)


def render_graph_section(spec: dict, sec: dict) -> List[str]:
    lines = []
    def rhs_name(t):
        # a bare right-hand / lone node declares :succeeded required
        o = spec['opt'].get(t, {})
        if o.get('fail_required'):
            return t + ':fail'
        return t + ('?' if o.get('succ') else '')

    for ln in sec['lines']:
        rhs = ' & '.join(rhs_name(t) for t in ln['rhs'])
        if ln['lhs'] is None:
            lines.append(rhs)
        else:
            lines.append(f'{render_tree(spec, ln["lhs"])} => {rhs}')
    return lines


def render_flow(spec: dict) -> str:
    ex = spec.get('extra', {})
    L = []
    L += ['[scheduler]', '    allow implicit tasks = True']
    if spec['mode'] == 'datetime':
        L += ['    UTC mode = True']
    if ex.get('scheduler_events'):
        L += ['    [[events]]'] + [
            f'        {k} = {v}' for k, v in ex['scheduler_events'].items()]
    L += ['[scheduling]']
    if spec['mode'] == 'integer':
        L += ['    cycling mode = integer']
    L += [f'    initial cycle point = {render_point(spec, spec["icp"])}',
          f'    final cycle point = {render_point(spec, spec["fcp"])}']
    if ex.get('runahead') is not None:
        L += [f'    runahead limit = {ex["runahead"]}']
    if ex.get('stop_after') is not None:
        L += ['    stop after cycle point = '
              + render_point(spec, ex['stop_after'])]
    if ex.get('hold_after') is not None:
        L += ['    hold after cycle point = '
              + render_point(spec, ex['hold_after'])]
    if ex.get('sequential'):
        L += ['    [[special tasks]]',
              '        sequential = ' + ', '.join(ex['sequential'])]
    if ex.get('clock_expire'):
        if not ex.get('sequential'):
            L += ['    [[special tasks]]']
        L += ['        clock-expire = ' + ', '.join(
            f'{t}({o})' for t, o in ex['clock_expire'].items())]
    if ex.get('queues'):
        L += ['    [[queues]]']
        for q in ex['queues']:
            L += [f'        [[[{q["name"]}]]]',
                  f'            limit = {q["limit"]}']
            if q.get('members') is not None:
                L += ['            members = ' + ', '.join(q['members'])]
    if ex.get('xtriggers'):
        L += ['    [[xtriggers]]']
        for label, sig in ex['xtriggers'].items():
            L += [f'        {label} = {sig}']
    L += ['    [[graph]]']
    for sec in spec['sections']:
        L += [f'        {render_rec(spec, sec["rec"])} = """']
        L += ['            ' + ln for ln in render_graph_section(spec, sec)]
        L += ['        """']
    L += ['[runtime]', '    [[root]]', '        script = true']
    for fam, members in (ex.get('families') or {}).items():
        L += [f'    [[{fam}]]']
    for t in spec['tasks']:
        body = []
        fams = [f for f, m in (ex.get('families') or {}).items() if t in m]
        if fams:
            body += ['        inherit = ' + ', '.join(fams)]
        r = spec.get('retries', {}).get(t)
        if r:
            if r.get('exec'):
                body += ['        execution retry delays = '
                         + ', '.join(r.get('exec_delays') or ['PT0S'] * r['exec'])]
            if r.get('submit'):
                body += ['        submission retry delays = '
                         + ', '.join(r.get('submit_delays') or ['PT0S'] * r['submit'])]
        comp = (ex.get('completion') or {}).get(t)
        if comp:
            body += [f'        completion = {comp}']
        cust = spec.get('custom', {}).get(t)
        if cust:
            body += ['        [[[outputs]]]']
            body += [f'            {k} = "{v}"' for k, v in cust.items()]
        if body:
            L += [f'    [[{t}]]'] + body
    return '\n'.join(L) + '\n'


# ---------------------------------------------------------------------------
# generator

def atoms_of(tree) -> List[dict]:
    if tree is None:
        return []
    if 'op' in tree:
        out = []
        for a in tree['args']:
            out += atoms_of(a)
        return out
    return [tree]


@st.composite
def wfspecs(draw, profile: Optional[dict] = None):
    """Draw a WfSpec.  `profile` switches feature classes on/off."""
    pf = {
        'max_tasks': 6, 'max_fcp': 5, 'or': True, 'offsets': True,
        'custom': True, 'optional': True, 'abs': True, 'future': True,
        'excl': True, 'multi_sections': True, 'datetime': True,
        'retries': False, 'fail_required': False, 'submit_opt': True,
        'min_tasks': 2, 'families': False,
    }
    pf.update(profile or {})
    icp = 1
    fcp = draw(st.integers(2, pf['max_fcp']))
    mode = 'integer'
    if pf['datetime'] and draw(st.integers(0, 3)) == 0:
        mode = 'datetime'
    ntask = draw(st.integers(pf['min_tasks'], pf['max_tasks']))
    tasks = draw(st.lists(st.sampled_from(NAME_POOL), min_size=ntask,
                          max_size=ntask, unique=True))
    # per-task output declarations
    custom: Dict[str, Dict[str, str]] = {}
    opt: Dict[str, dict] = {}
    for t in tasks:
        o = {'succ': False, 'submit': False, 'fail_required': False,
             'custom': {}}
        if pf['optional']:
            o['succ'] = draw(st.integers(0, 3)) == 0
            if pf['submit_opt']:
                o['submit'] = draw(st.integers(0, 7)) == 0
            if pf['fail_required'] and not o['succ']:
                o['fail_required'] = draw(st.integers(0, 9)) == 0
        if pf['custom'] and draw(st.integers(0, 2)) == 0:
            names = draw(st.lists(st.sampled_from(['x', 'y', 'out-1', 'x_y']),
                                  min_size=1, max_size=2, unique=True))
            custom[t] = {}
            for nm in names:
                msg = draw(st.sampled_from([
                    nm, f'{nm} done', f'the {nm} file is ready',
                    f'{nm} - ok, go', f'{nm}.v2']))
                if msg in custom[t].values():
                    msg = msg + ' ' + nm
                custom[t][nm] = msg
                o['custom'][nm] = bool(
                    pf['optional'] and draw(st.integers(0, 2)) == 0)
        opt[t] = o
    nsec = draw(st.integers(1, 3 if pf['multi_sections'] else 1))
    sections = []
    spec = {'mode': mode, 'icp': icp, 'fcp': fcp, 'tasks': tasks,
            'custom': custom, 'opt': opt, 'retries': {}, 'extra': {}}
    # tasks already placed unoffset in some section: name -> set(points)
    home: Dict[str, set] = {t: set() for t in tasks}
    for si in range(nsec):
        kind = draw(st.sampled_from(['P', 'P', 'P', 'R1']))
        if kind == 'R1':
            at = draw(st.sampled_from([icp, icp, fcp, draw(st.integers(icp, fcp))]))
            rec = {'kind': 'R1', 'at': at, 'form': draw(st.integers(0, 1))}
        else:
            step = draw(st.sampled_from([1, 1, 1, 2, 2, 3]))
            off = draw(st.sampled_from([0, 0, 0, 1, 2])) if pf['multi_sections'] else 0
            excl = []
            if pf['excl'] and draw(st.integers(0, 5)) == 0:
                excl = draw(st.lists(st.integers(icp, fcp), min_size=1,
                                     max_size=2, unique=True))
            rec = {'kind': 'P', 'step': step, 'off': off, 'excl': sorted(excl)}
        pts = rec_points(rec, icp, fcp)
        if not pts:
            rec = {'kind': 'P', 'step': 1, 'off': 0, 'excl': []}
            pts = rec_points(rec, icp, fcp)
        sec = {'rec': rec, 'lines': []}
        sections.append(sec)
        # tasks taking part in this section (rank order kept)
        k = draw(st.integers(1, len(tasks)))
        members = draw(st.lists(st.sampled_from(tasks), min_size=k, max_size=k,
                                unique=True))
        members.sort(key=tasks.index)
        for t in members:
            home[t].update(pts)
        placed_rhs = set()
        for idx, t in enumerate(members):
            earlier = members[:idx]
            # build LHS for t from earlier-ranked members (same cycle), and
            # any member (incl. itself / later) with negative offsets
            n_atoms = draw(st.integers(0, 3))
            atoms = []
            for _ in range(n_atoms):
                choice = draw(st.integers(0, 9))
                if choice <= 4 and earlier:
                    u = draw(st.sampled_from(earlier))
                    atoms.append({'t': u, 'off': None, 'abs': None})
                elif choice <= 7 and pf['offsets'] and rec['kind'] == 'P':
                    u = draw(st.sampled_from(members))
                    mult = draw(st.sampled_from([1, 1, 2]))
                    atoms.append({'t': u, 'off': -rec['step'] * mult,
                                  'abs': None})
                elif choice == 8 and pf['abs']:
                    # absolute trigger on a member of an earlier section, at a
                    # point where it is valid
                    cands = [(u, sorted(home[u])) for u in tasks
                             if home[u] and u not in members[idx:]]
                    cands = [(u, ps) for u, ps in cands if ps]
                    if cands:
                        u, ps = draw(st.sampled_from(cands))
                        atoms.append({'t': u, 'off': None,
                                      'abs': draw(st.sampled_from(ps)),
                                      'form': draw(st.integers(0, 1))})
                elif earlier:
                    u = draw(st.sampled_from(earlier))
                    atoms.append({'t': u, 'off': None, 'abs': None})
            for a in atoms:
                a['out'] = _draw_output(draw, spec, a['t'], pf)
                a['implicit'] = draw(st.booleans())
                a['longform'] = draw(st.integers(0, 3)) == 0
            if not atoms:
                if draw(st.booleans()) or t not in placed_rhs:
                    sec['lines'].append({'lhs': None, 'rhs': [t]})
                    placed_rhs.add(t)
                continue
            tree = _build_tree(draw, atoms, pf)
            rhs = [t]
            sec['lines'].append({'lhs': tree, 'rhs': rhs})
            placed_rhs.add(t)
        # future trigger: single-atom line onto a fresh consumer
        # (on a one-off section the consumer is in the pool only briefly:
        # the future offset must stop counting once it has gone)
        if (pf['future'] and len(members) >= 2
                and draw(st.integers(0, pf.get('future_odds', 7))) == 0):
            src = members[0]
            has_pre = any(src in ln['rhs'] and ln['lhs'] is not None
                          for s in sections for ln in s['lines'])
            tgt = members[-1]
            tgt_has_lines = any(tgt in ln['rhs'] and ln['lhs'] is not None
                                for ln in sec['lines'])
            if not has_pre and not tgt_has_lines and src != tgt:
                sec['lines'] = [ln for ln in sec['lines']
                                if not (ln['lhs'] is None and ln['rhs'] == [tgt])]
                sec['lines'].append({
                    'lhs': {'t': src, 'abs': None,
                            'off': (rec['step'] if rec['kind'] == 'P'
                                    else draw(st.integers(1, 2))),
                            'out': 'succeeded', 'implicit': True,
                            'longform': False},
                    'rhs': [tgt]})
    spec['sections'] = sections
    if pf['retries']:
        for t in tasks:
            if draw(st.integers(0, 1)) == 0:
                spec['retries'][t] = {
                    'exec': draw(st.integers(0, 2)),
                    'submit': draw(st.integers(0, 2))}
    _repair(spec)
    if pf['families'] and draw(st.integers(0, 3)) == 0:
        _add_family_trigger(draw, spec)
    return spec


FAM_QUALS = {
    # qualifier -> (member output, all?, needs optional success)
    'succeed-all': ('succeeded', True, False),
    'succeed-any': ('succeeded', False, False),
    'start-all': ('started', True, False),
    'start-any': ('started', False, False),
    'finish-all': ('finished', True, True),
    'finish-any': ('finished', False, True),
    'fail-all': ('failed', True, True),
    'fail-any': ('failed', False, True),
}


def _add_family_trigger(draw, spec) -> None:
    """Put 2-3 tasks of one section into family FAM and add a consumer task
    `zf` triggered by `FAM:<qualifier>` in that section (same cycle)."""
    from vf.sim import model
    if 'zf' in spec['tasks'] or spec['extra'].get('families'):
        return
    cands = []
    for si, sec in enumerate(spec['sections']):
        inside = []
        for t in spec['tasks']:
            here = any(t in ln['rhs'] for ln in sec['lines']) or any(
                a['t'] == t and not a.get('off') and a.get('abs') is None
                for ln in sec['lines'] for a in atoms_of(ln['lhs']))
            if here and not spec['opt'][t].get('fail_required'):
                inside.append(t)
        for flag in (False, True):
            grp = [t for t in inside if bool(spec['opt'][t].get('succ')) == flag]
            if len(grp) >= 2:
                cands.append((si, flag, grp))
    if not cands:
        return
    si, flag, grp = draw(st.sampled_from(cands))
    k = draw(st.integers(2, min(3, len(grp))))
    members = draw(st.lists(st.sampled_from(grp), min_size=k, max_size=k,
                            unique=True))
    members.sort(key=spec['tasks'].index)
    quals = [q for q, (_o, _a, need) in FAM_QUALS.items() if flag or not need]
    q = draw(st.sampled_from(quals))
    out, is_all, _need = FAM_QUALS[q]
    node = {'fam': 'FAM', 'q': q, 'op': '&' if is_all else '|',
            'args': [{'t': m, 'off': None, 'abs': None, 'out': out,
                      'implicit': False, 'longform': False} for m in members]}
    spec['tasks'].append('zf')
    spec['opt']['zf'] = {'succ': False, 'submit': False,
                         'fail_required': False, 'custom': {}}
    spec['extra']['families'] = {'FAM': members}
    spec['sections'][si]['lines'].append({'lhs': node, 'rhs': ['zf']})


def _draw_output(draw, spec, t, pf) -> str:
    o = spec['opt'][t]
    choices = ['succeeded', 'succeeded', 'succeeded', 'started']
    if o['fail_required']:
        choices = ['failed', 'failed', 'started']
    elif o['succ']:
        choices += ['failed', 'failed', 'finished']
    if o['submit']:
        choices += ['submit-failed', 'submitted']
    else:
        choices += ['submitted']
    for nm in spec['custom'].get(t, {}):
        choices += [nm, nm]
    return draw(st.sampled_from(choices))


def _build_tree(draw, atoms, pf):
    nodes = list(atoms)
    while len(nodes) > 1:
        k = draw(st.integers(2, len(nodes)))
        op = '|' if (pf['or'] and draw(st.integers(0, 2)) == 0) else '&'
        grp, nodes = nodes[:k], nodes[k:]
        nodes.insert(0, {'op': op, 'args': grp})
    return nodes[0]


def _repair(spec: dict) -> None:
    """Drop offsets whose upstream instance would be off-sequence (cylc
    treats those as never satisfiable and validation accepts them), make
    sure every task has a home, drop duplicate lone lines."""
    from vf.sim import model
    icp, fcp = spec['icp'], spec['fcp']
    # absolute and future triggers only from tasks without prerequisites
    # (otherwise the graph can be cyclic through them)
    has_pre = {r for sec in spec['sections'] for ln in sec['lines']
               if ln['lhs'] is not None for r in ln['rhs']}
    for sec in spec['sections']:
        for ln in sec['lines']:
            for a in atoms_of(ln['lhs']):
                if a['t'] in has_pre and (
                        a.get('abs') is not None or (a.get('off') or 0) > 0):
                    a['abs'] = None
                    a['off'] = None
    valid = model.valid_points(spec)
    for sec in spec['sections']:
        pts = rec_points(sec['rec'], icp, fcp)
        for ln in sec['lines']:
            for a in atoms_of(ln['lhs']):
                if a.get('abs') is not None:
                    if a['abs'] not in valid.get(a['t'], ()):
                        a['abs'] = None
                        a['off'] = None
                    continue
                off = a.get('off') or 0
                if off == 0:
                    continue
                ok = all(
                    (p + off < icp) or (p + off in valid.get(a['t'], ()))
                    or (off > 0 and p + off > fcp)
                    for p in pts)
                if not ok:
                    a['off'] = None
    # same-cycle atoms must reference tasks valid at every point of the
    # section: they are (an un-offset LHS node joins the section's sequence)
    # acyclicity of same-cycle edges holds by rank order; an atom made
    # same-cycle by repair may point forward in rank: redirect to itself's
    # earlier neighbour or drop to lone node
    rank = {t: i for i, t in enumerate(spec['tasks'])}
    for sec in spec['sections']:
        new_lines = []
        for ln in sec['lines']:
            if ln['lhs'] is not None:
                tmin = min(rank[r] for r in ln['rhs'])
                bad = [a for a in atoms_of(ln['lhs'])
                       if not a.get('off') and a.get('abs') is None
                       and rank[a['t']] >= tmin]
                if bad:
                    ln = {'lhs': _prune(ln['lhs'], bad), 'rhs': ln['rhs']}
            new_lines.append(ln)
        sec['lines'] = new_lines


def _prune(tree, bad):
    if tree is None:
        return None
    if 'op' not in tree:
        return None if any(tree is b for b in bad) else tree
    args = [x for x in (_prune(a, bad) for a in tree['args']) if x is not None]
    if not args:
        return None
    if len(args) == 1:
        return args[0]
    return {'op': tree['op'], 'args': args}
