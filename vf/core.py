"""Core plumbing shared by all property modules.

A property module (vf/props/cNN.py) exposes:

    PROP_ID   = 'C35'
    LEVEL     = 'exploration' | 'fault_enumeration' | ...
    RULE      = text: how cases are generated and what is non-trivial
    ASSUMPTIONS = [..]
    BUDGET    = {'quick': n_cases_total, 'thorough': n_cases_total}
    def run_shard(ctx: Ctx) -> None       # drives ctx.col (Collector)
    def check_case(case, ctx) -> CaseResult   # pure replay entry: JSON case -> violations

Every random choice is a Hypothesis draw; `hyp_run` wires seed/settings and
implements collect-then-shrink with known-finding exclusion.
"""
from __future__ import annotations

import hashlib
import json
import os
import sys
import time
import traceback
from collections import Counter
from dataclasses import dataclass, field
from typing import Any, Callable, Iterable, List, Optional

ROOT = os.environ.get('VF_ROOT') or os.path.dirname(
    os.path.dirname(os.path.abspath(__file__)))
REPO = os.environ.get('VF_REPO', '/repo')


def jhash(obj: Any) -> str:
    return hashlib.sha1(
        json.dumps(obj, sort_keys=True, default=str).encode()
    ).hexdigest()[:16]


@dataclass
class Violation:
    sig: str          # root-cause signature, e.g. 'C15:fam-any:submit-fail'
    detail: str       # human readable

    def to_json(self):
        return {'sig': self.sig, 'detail': self.detail}


@dataclass
class CaseResult:
    violations: List[Violation] = field(default_factory=list)
    nontrivial: bool = False
    classes: Iterable[str] = ()
    inconclusive: bool = False
    # optional: key used for distinctness instead of the whole case
    distinct_key: Any = None
    info: Any = None       # extra, shown in samples


class PropertyViolated(Exception):
    def __init__(self, violation: Violation, case: Any):
        super().__init__(f'{violation.sig}: {violation.detail}')
        self.violation = violation
        self.case = case


def load_known() -> dict:
    path = os.path.join(ROOT, 'known_findings.json')
    try:
        with open(path) as f:
            known = json.load(f)
    except FileNotFoundError:
        known = {'findings': [], 'fixed': []}
    # development aid only (never set by the registered commands): extra
    # candidate entries under review, see tools/AGENT_BRIEF_S.md
    extra = os.environ.get('VF_EXTRA_KNOWN')
    if extra and os.path.exists(extra):
        with open(extra) as f:
            known = dict(known)
            known['findings'] = list(known.get('findings', [])) + json.load(f)
    return known


def known_sigs(prop_id: str) -> dict:
    """sig -> what, for findings recorded (not fixed) for this property."""
    out = {}
    for ent in load_known().get('findings', []):
        if ent.get('property') == prop_id and ent.get('status', 'known') == 'known':
            out[ent['signature']] = ent.get('what', '')
    return out


class Collector:
    """Accumulates what a shard covered."""

    MAX_SAMPLES = 4

    def __init__(self, prop_id: str):
        self.prop_id = prop_id
        self.known = known_sigs(prop_id)
        self.evaluations = 0
        self.nontrivial = set()
        self.nontrivial_extra = 0     # counted-by-construction (exhaustive)
        self.classes = Counter()
        self.samples: list = []
        self.known_hits = Counter()
        self.inconclusive = 0
        self.rejected = 0
        self.violations: list = []   # [{'sig','detail','case'}]
        self.extra: dict = {}
        self._seen_fail: dict = {}   # case hash -> Violation
        self._first_fail_t: Optional[float] = None

    # -- recording ---------------------------------------------------------
    def record(self, case: Any, res: CaseResult) -> None:
        self.evaluations += 1
        if res.inconclusive:
            self.inconclusive += 1
        for c in res.classes:
            self.classes[c] += 1
        if res.nontrivial:
            key = res.distinct_key if res.distinct_key is not None else case
            h = jhash(key)
            if h not in self.nontrivial:
                self.nontrivial.add(h)
                if len(self.samples) < self.MAX_SAMPLES:
                    s = {'case': case}
                    if res.info is not None:
                        s['info'] = res.info
                    self.samples.append(s)
        elif not self.samples and self.evaluations > 50:
            self.samples.append({'case': case, 'trivial': True})

    def filter_known(self, violations: List[Violation]) -> List[Violation]:
        out = []
        for v in violations:
            if v.sig in self.known:
                self.known_hits[v.sig] += 1
            else:
                out.append(v)
        return out

    def add_violation(self, v: Violation, case: Any) -> None:
        for ex in self.violations:
            if ex['sig'] == v.sig:
                # keep the smallest reproduction per signature
                if len(json.dumps(case, default=str)) < len(
                        json.dumps(ex['case'], default=str)):
                    ex.update(detail=v.detail, case=case)
                return
        self.violations.append(
            {'sig': v.sig, 'detail': v.detail, 'case': case})

    def to_json(self) -> dict:
        return {
            'evaluations': self.evaluations,
            'nontrivial': sorted(self.nontrivial),
            'nontrivial_extra': self.nontrivial_extra,
            'classes': dict(self.classes),
            'samples': self.samples,
            'known_hits': dict(self.known_hits),
            'inconclusive': self.inconclusive,
            'rejected': self.rejected,
            'violations': self.violations,
            'extra': self.extra,
        }


@dataclass
class Ctx:
    prop_id: str
    tier: str
    seed: int
    shard: int
    nshards: int
    scratch: str
    col: Collector

    @property
    def quick(self) -> bool:
        return self.tier == 'quick'

    def share(self, total: int) -> int:
        """This shard's share of a total case budget."""
        base, rem = divmod(total, self.nshards)
        return base + (1 if self.shard < rem else 0)

    @property
    def derived_seed(self) -> int:
        return self.seed * 1000 + self.shard


def hyp_run(
    ctx: Ctx,
    strategy,
    check_case: Callable[[Any, Ctx], CaseResult],
    n_examples: int,
    shrink_cap_s: Optional[float] = None,
    label: str = '',
) -> None:
    """Run `check_case` over `n_examples` cases drawn from `strategy`.

    Violations whose signature is a recorded known finding are counted and
    excluded (search continues).  Any other violation raises inside the
    Hypothesis body so that Hypothesis shrinks it; the minimal failing case
    is recorded on the collector.  After `shrink_cap_s` seconds of shrinking,
    unseen cases pass trivially so the shrinker terminates (Hypothesis has a
    hard 5 min cap of its own).
    """
    if n_examples <= 0:
        return
    import hypothesis
    from hypothesis import HealthCheck, Phase, given, settings
    col = ctx.col
    if shrink_cap_s is None:
        shrink_cap_s = 45.0 if ctx.quick else 240.0
    state = {'first_fail': None, 'last': None}

    def body(case):
        h = jhash(case)
        if (
            state['first_fail'] is not None
            and time.monotonic() - state['first_fail'] > shrink_cap_s
        ):
            prev = col._seen_fail.get(h)
            if prev is not None:
                state['last'] = (prev, case)
                raise PropertyViolated(prev, case)
            return
        try:
            with _case_watchdog():
                res = check_case(case, ctx)
        except _CaseTimeout:
            # safety net against a case that effectively never ends (e.g. a
            # recursion that is slow at every level): a time budget hit is
            # inconclusive, never a violation
            col.evaluations += 1
            col.inconclusive += 1
            col.classes['case-timeout'] += 1
            return
        col.record(case, res)
        bad = col.filter_known(res.violations)
        if bad:
            if state['first_fail'] is None:
                state['first_fail'] = time.monotonic()
                dump = os.environ.get('VF_DUMP_FIRST_FAIL')
                if dump:      # development aid: the case before shrinking
                    os.makedirs(dump, exist_ok=True)
                    with open(os.path.join(
                            dump, f'{ctx.prop_id}-s{ctx.shard}.json'), 'w') as f:
                        json.dump({'property': ctx.prop_id, 'sig': bad[0].sig,
                                   'detail': bad[0].detail, 'case': case,
                                   'n_before': col.evaluations}, f)
            col._seen_fail[h] = bad[0]
            state['last'] = (bad[0], case)
            raise PropertyViolated(bad[0], case)

    test = given(strategy)(body)
    test = hypothesis.seed(ctx.derived_seed)(test)
    test = settings(
        max_examples=n_examples,
        database=None,
        deadline=None,
        derandomize=False,
        report_multiple_bugs=False,
        print_blob=False,
        suppress_health_check=list(HealthCheck),
        phases=[Phase.generate, Phase.shrink],
    )(test)
    try:
        test()
    except PropertyViolated as exc:
        v, case = exc.violation, exc.case
        if state['last'] is not None:
            v, case = state['last']
        col.add_violation(v, case)
    except BaseException as exc:  # noqa
        # Hypothesis may wrap (e.g. Flaky / FlakyFailure): if we have a
        # recorded failing case report that, else it is a harness error.
        if state['last'] is not None and _is_flaky(exc):
            v, case = state['last']
            col.add_violation(v, case)
            col.extra.setdefault('flaky', []).append(repr(exc)[:300])
        else:
            raise


class _CaseTimeout(BaseException):
    pass


class _case_watchdog:
    """SIGALRM based per-case safety net (seconds: VF_CASE_TIMEOUT, default
    600; 0 disables).  Main thread only."""

    def __enter__(self):
        import signal
        self.secs = int(os.environ.get('VF_CASE_TIMEOUT', '600') or 0)
        if self.secs:
            def fire(_sig, _frm):
                raise _CaseTimeout()
            self.old = signal.signal(signal.SIGALRM, fire)
            signal.alarm(self.secs)
        return self

    def __exit__(self, *a):
        import signal
        if self.secs:
            signal.alarm(0)
            signal.signal(signal.SIGALRM, self.old)
        return False


def _is_flaky(exc: BaseException) -> bool:
    name = type(exc).__name__
    return 'Flaky' in name or 'ExceptionGroup' in name


def exc_sig(exc: BaseException, pkg: str = 'cylc/flow') -> str:
    """type@innermost frame inside pkg (for exception bucketing)."""
    tb = traceback.extract_tb(exc.__traceback__)
    loc = '?'
    for fr in tb:
        if pkg in fr.filename:
            loc = f'{os.path.basename(fr.filename)}:{fr.name}'
    return f'{type(exc).__name__}@{loc}'
