"""Reference model over the harness AST (never reads cylc's parsed config)."""
from __future__ import annotations

from typing import Dict, List, Optional, Set, Tuple

from vf.gen.wfspec import atoms_of, rec_points

Inst = Tuple[str, int]        # (task, point)


def valid_points(spec: dict) -> Dict[str, Set[int]]:
    """task -> points where it is on one of its sequences (within bounds).

    A task joins a section's sequence when it appears there un-offset
    (right-hand side, lone node, or left-hand side without offset)."""
    icp, fcp = spec['icp'], spec['fcp']
    out: Dict[str, Set[int]] = {t: set() for t in spec['tasks']}
    for sec in spec['sections']:
        pts = rec_points(sec['rec'], icp, fcp)
        for ln in sec['lines']:
            for t in ln['rhs']:
                out[t].update(pts)
            for a in atoms_of(ln['lhs']):
                if not a.get('off') and a.get('abs') is None:
                    out[a['t']].update(pts)
    return out


def atom_target(atom: dict, p: int) -> int:
    if atom.get('abs') is not None:
        return atom['abs']
    return p + (atom.get('off') or 0)


def expand_out(out: str) -> List[str]:
    return ['succeeded', 'failed'] if out == 'finished' else [out]


class Model:
    def __init__(self, spec: dict, start: Optional[int] = None):
        self.spec = spec
        self.icp = spec['icp']
        self.fcp = spec['fcp']
        self.start = start if start is not None else self.icp
        self.valid = valid_points(spec)
        # lines per (task): [(points set, tree)]
        self.lines: Dict[str, List[Tuple[Set[int], Optional[dict]]]] = {
            t: [] for t in spec['tasks']}
        for sec in spec['sections']:
            pts = set(rec_points(sec['rec'], self.icp, self.fcp))
            for ln in sec['lines']:
                for t in ln['rhs']:
                    self.lines[t].append((pts, ln['lhs']))

    # -- static ------------------------------------------------------------
    def is_valid(self, t: str, p: int) -> bool:
        return p in self.valid.get(t, ())

    def instances(self) -> List[Inst]:
        return sorted((t, p) for t, ps in self.valid.items() for p in ps)

    def trees_at(self, t: str, p: int) -> List[dict]:
        return [tree for pts, tree in self.lines[t]
                if p in pts and tree is not None]

    def atom_state(self, atom: dict, p: int, done: Dict[Inst, Set[str]]):
        """True/False; pre-initial (before start point) atoms are True."""
        q = atom_target(atom, p)
        if atom.get('abs') is None and q < self.start:
            return True
        if atom.get('abs') is not None and q < self.start:
            return True
        outs = done.get((atom['t'], q), ())
        return any(o in outs for o in expand_out(atom['out']))

    def eval_tree(self, tree: dict, p: int, done) -> bool:
        if 'op' in tree:
            vals = [self.eval_tree(a, p, done) for a in tree['args']]
            return all(vals) if tree['op'] == '&' else any(vals)
        return self.atom_state(tree, p, done)

    def prereq(self, t: str, p: int, done) -> bool:
        return all(self.eval_tree(tr, p, done) for tr in self.trees_at(t, p))

    def real_atoms(self, t: str, p: int) -> List[Tuple[str, int, str]]:
        """(upstream task, point, output) the instance depends on, excluding
        pre-initial ones."""
        out = []
        for tr in self.trees_at(t, p):
            for a in atoms_of(tr):
                q = atom_target(a, p)
                if q < self.start:
                    continue
                for o in expand_out(a['out']):
                    out.append((a['t'], q, o))
        return out

    def parentless(self, t: str, p: int) -> bool:
        """No parents at/after the start point, or only absolute parents."""
        for tr in self.trees_at(t, p):
            for a in atoms_of(tr):
                if a.get('abs') is not None:
                    continue
                if atom_target(a, p) >= self.start:
                    return False
        return True

    # -- completion ----------------------------------------------------------
    def used_outputs(self, t: str) -> Dict[str, bool]:
        """output -> optional?  for outputs of t referenced in the graph."""
        from vf.gen.wfspec import atom_optional
        used: Dict[str, bool] = {}
        for sec in self.spec['sections']:
            for ln in sec['lines']:
                for a in atoms_of(ln['lhs']):
                    if a['t'] != t:
                        continue
                    for o in expand_out(a['out']):
                        if a['out'] == 'finished':
                            used[o] = True
                        else:
                            used[o] = atom_optional(self.spec, a)
        # a bare right-hand-side / lone node declares succeeded (t, t?) or
        # failed (t:fail)
        o = self.spec['opt'].get(t, {})
        for sec in self.spec['sections']:
            for ln in sec['lines']:
                if t in ln['rhs']:
                    if o.get('fail_required'):
                        used['failed'] = False
                    else:
                        used['succeeded'] = bool(o.get('succ'))
        return used

    def complete(self, t: str, outs: Set[str]) -> bool:
        """Documented default completion rule (statement C11)."""
        used = self.used_outputs(t)
        required = {o for o, opt in used.items() if not opt}
        if 'succeeded' not in used and 'failed' not in used:
            required.add('succeeded')
        succ_opt = (used.get('succeeded') is True) or (used.get('failed') is True)
        submit_opt = (used.get('submitted') is True) or (
            used.get('submit-failed') is True)
        base = all(o in outs for o in required)
        if succ_opt:
            if required:
                ok = (base and 'succeeded' in outs) or 'failed' in outs
            else:
                ok = 'succeeded' in outs or 'failed' in outs
        else:
            ok = base
        if submit_opt and 'submit-failed' in outs:
            ok = True
        return ok

    # -- dynamic -------------------------------------------------------------
    def closure(self, result_of, never=()) -> Tuple[Set[Inst], Dict[Inst, Set[str]], Set[Inst]]:
        """Least fixed point of spawn-on-demand.

        result_of(t, p) -> set of outputs the instance completes if it runs.
        `never`: instances assumed never to be spawned (used to take the
        instances of a recorded known finding, and what only they lead to,
        out of the reference).
        Returns (ran, done, ambiguous) where ambiguous = instances whose
        prerequisites are true but that no upstream output spawned and that
        are not parentless (their fate is not fixed by the statement).
        """
        ran: Set[Inst] = set()
        done: Dict[Inst, Set[str]] = {}
        insts = [(t, p) for (t, p) in self.instances() if p >= self.start]
        changed = True
        while changed:
            changed = False
            for (t, p) in insts:
                if (t, p) in ran or (t, p) in never:
                    continue
                if self.parentless(t, p):
                    go = self.prereq(t, p, done)
                else:
                    spawned = any(
                        o in done.get((u, q), ())
                        for (u, q, o) in self.real_atoms(t, p))
                    go = spawned and self.prereq(t, p, done)
                if go:
                    ran.add((t, p))
                    done[(t, p)] = set(result_of(t, p))
                    changed = True
        ambiguous = set()
        for (t, p) in insts:
            if (t, p) in ran or self.parentless(t, p):
                continue
            if self.prereq(t, p, done):
                ambiguous.add((t, p))
        return ran, done, ambiguous
