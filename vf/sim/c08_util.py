"""Helpers shared by the flow-related property modules C08 and C30.

* `FlowMonitor`: observation-only wrappers around this scheduler
  incarnation's `pool.spawn_on_output`, `pool.spawn_task`,
  `pool.merge_flows`, `pool.remove` and `flow_mgr.get_flow` (re-attached
  after every restart).  Events go to `sim.trace`:
    x-soo     one spawn_on_output call: parent, its flows / flow_wait at call
              time, output, {pool id: flows} before and after, spawn_task and
              merge_flows calls made inside it
    x-spawn   a spawn_task call made outside spawn_on_output
    x-merge   a merge_flows call made outside spawn_on_output
    x-remove  pool.remove with the proxy's flows, status, completeness
    x-flow    FlowMgr.get_flow: requested number (None = new) and the result
* `children_of`: graph children of (task, point, output) from the harness AST.
* `flow_schedules`: schedule strategy rich in flow commands, `settle` steps
  (a few fair rounds) and restarts; `run_step` interprets them.
* read-only DB access through a fresh sqlite connection.
"""
from __future__ import annotations

import json
import sqlite3
from typing import Dict, List, Optional, Tuple

from hypothesis import strategies as st

from vf.gen.wfspec import atoms_of
from vf.sim.model import atom_target, expand_out

FINAL = ('succeeded', 'failed', 'submit-failed', 'expired')


# ---------------------------------------------------------------------------
# model helpers

def output_name(spec: dict, t: str, out: str) -> str:
    """Trigger name of an output given as trigger name or message."""
    cust = spec.get('custom', {}).get(t, {})
    if out in cust:
        return out
    for nm, msg in cust.items():
        if msg == out:
            return nm
    if out.startswith('failed'):
        return 'failed'
    return out


def children_of(model, t: str, p: int, out: Optional[str] = None
                ) -> List[Tuple[str, int]]:
    """Model instances with a (non pre-initial, non absolute) trigger on
    output `out` (any output if None) of instance (t, p)."""
    res = []
    for (c, q) in model.instances():
        for tree in model.trees_at(c, q):
            hit = False
            for a in atoms_of(tree):
                if a['t'] != t or a.get('abs') is not None:
                    continue
                if atom_target(a, q) != p or p < model.start:
                    continue
                if out is None or out in expand_out(a['out']):
                    hit = True
            if hit and (c, q) not in res:
                res.append((c, q))
    return res


def parents_of(model, c: str, q: int) -> List[Tuple[str, int, str]]:
    return model.real_atoms(c, q)


# ---------------------------------------------------------------------------
# monitor

def _fl(x) -> List[int]:
    return sorted(x or ())


class FlowMonitor:
    def __init__(self, sc):
        self.sc = sc
        self.sim = sc.sim
        self.stack: List[dict] = []
        self.attach()
        sc.drv.after_restart.append(lambda _drv: self.attach())

    def pool_flows(self) -> Dict[str, List[int]]:
        schd = self.sim.schd
        return {t.identity: _fl(t.flow_nums) for t in schd.pool.get_tasks()}

    def attach(self):
        sim, mon = self.sim, self
        schd = sim.schd
        if schd is None or not hasattr(schd, 'pool'):
            return
        pool = schd.pool
        if getattr(pool, '_vf_flowmon', False):
            return
        pool._vf_flowmon = True
        self.stack = []

        orig_soo = pool.spawn_on_output

        def spawn_on_output(itask, output, *a, **k):
            rec = {
                'cycle': str(itask.point), 'name': itask.tdef.name,
                'output': output, 'pflows': _fl(itask.flow_nums),
                'flow_wait': bool(itask.flow_wait),
                'transient': bool(itask.transient),
                'before': mon.pool_flows(), 'spawns': [], 'merges': [],
            }
            mon.stack.append(rec)
            try:
                return orig_soo(itask, output, *a, **k)
            finally:
                mon.stack.pop()
                rec['after'] = mon.pool_flows()
                sim.ev('x-soo', **rec)

        pool.spawn_on_output = spawn_on_output
        schd.task_events_mgr.spawn_func = spawn_on_output

        orig_spawn = pool.spawn_task

        def spawn_task(name, point, flow_nums, *a, **k):
            arg = _fl(flow_nums)
            n0 = len(sim.trace)
            r = orig_spawn(name, point, flow_nums, *a, **k)
            rec = {'cycle': str(point), 'name': name, 'arg': arg,
                   'res': None if r is None else _fl(r.flow_nums),
                   'status': None if r is None else r.state.status,
                   # refused by cycle bounds / sequence (engine monitor)
                   'refused': any(
                       e['k'] == 'spawn-refused' and e['name'] == name
                       and e['cycle'] == str(point)
                       for e in sim.trace[n0:])}
            if mon.stack:
                mon.stack[-1]['spawns'].append(rec)
            else:
                sim.ev('x-spawn', **rec)
            return r

        pool.spawn_task = spawn_task

        orig_merge = pool.merge_flows

        def merge_flows(itask, flow_nums, *a, **k):
            rec = {'cycle': str(itask.point), 'name': itask.tdef.name,
                   'before': _fl(itask.flow_nums), 'arg': _fl(flow_nums),
                   'status': itask.state.status}
            r = orig_merge(itask, flow_nums, *a, **k)
            rec['after'] = _fl(itask.flow_nums)
            if mon.stack:
                mon.stack[-1]['merges'].append(rec)
            else:
                sim.ev('x-merge', **rec)
            return r

        pool.merge_flows = merge_flows

        orig_remove = pool.remove

        def remove(itask, *a, **k):
            sim.ev('x-remove', cycle=str(itask.point), name=itask.tdef.name,
                   flows=_fl(itask.flow_nums), status=itask.state.status,
                   complete=bool(itask.state.outputs.is_complete()),
                   reason=(a[0] if a else k.get('reason')))
            return orig_remove(itask, *a, **k)

        pool.remove = remove

        fm = pool.flow_mgr
        orig_get = fm.get_flow

        def get_flow(flow_num=None, meta=None):
            known = sorted(fm.flows)
            r = orig_get(flow_num, meta)
            sim.ev('x-flow', req=flow_num, res=r, known=known,
                   counter=fm.counter)
            return r

        fm.get_flow = get_flow


# ---------------------------------------------------------------------------
# database (observation only)

def db_rows(path, sql: str, args=()) -> list:
    try:
        con = sqlite3.connect(f'file:{path}?mode=ro', uri=True, timeout=5)
    except sqlite3.Error:
        return []
    try:
        return con.execute(sql, args).fetchall()
    except sqlite3.Error:
        return []
    finally:
        con.close()


def db_flow_numbers(path) -> List[int]:
    return sorted(r[0] for r in db_rows(
        path, 'SELECT flow_num FROM workflow_flows'))


def _fset(s: str) -> List[int]:
    try:
        return sorted(int(x) for x in json.loads(s))
    except Exception:
        return []


def db_task_tables(path) -> dict:
    """{'states': {(cycle, name): [[flows], ...]},
        'outputs': {(cycle, name): [([flows], outputs_json), ...]}}"""
    states: Dict[Tuple[str, str], list] = {}
    for c, n, f, s, sn in db_rows(
            path, 'SELECT cycle, name, flow_nums, status, submit_num '
                  'FROM task_states'):
        states.setdefault((c, n), []).append(
            {'flows': _fset(f), 'status': s, 'submit_num': sn})
    outputs: Dict[Tuple[str, str], list] = {}
    for c, n, f, o in db_rows(
            path, 'SELECT cycle, name, flow_nums, outputs FROM task_outputs'):
        try:
            outs = sorted(json.loads(o)) if o else []
        except Exception:
            outs = [o]
        outputs.setdefault((c, n), []).append(
            {'flows': _fset(f), 'outputs': outs})
    return {'states': states, 'outputs': outputs}


# ---------------------------------------------------------------------------
# schedules

FLOW_OPTS = [[], [], ['new'], ['new'], ['new'], ['none'], ['1'], ['2'],
             ['3'], ['1', '2'], ['2', '3']]


@st.composite
def flow_commands(draw, ops=('trigger', 'trigger', 'set', 'set-pre'),
                  flows=FLOW_OPTS):
    """One command step with flow options."""
    op = draw(st.sampled_from(list(ops)))
    n = draw(st.integers(0, 23))
    flow = list(draw(st.sampled_from(flows)))
    wait = False
    if flow and flow[0] not in ('new', 'none'):
        wait = draw(st.integers(0, 3)) == 0
    if op == 'trigger':
        return ['trigger', n, flow, wait]
    if op == 'set':
        return ['set', n, None, None, flow, wait]
    if op == 'set-pre':
        return ['set', n, None, ['all'], flow, wait]
    if op == 'remove':
        if flow and flow[0] in ('new', 'none'):
            flow = []
        return ['remove', n, flow]
    raise ValueError(op)


def basic_steps():
    return st.tuples(
        st.sampled_from(['loop', 'loop', 'loop', 'ret', 'adv', 'del', 'del']),
        st.integers(0, 7)).map(list)


def settle_steps(lo=1, hi=6):
    return st.integers(lo, hi).map(lambda k: ['settle', k])


async def settle(sc, k: int) -> None:
    """k fair rounds: return every pending command, let every live job emit
    its next message, deliver everything in flight, one main-loop iteration."""
    sim = sc.sim
    for _ in range(k):
        if not sim.running:
            return
        for it in sim.pending_cmds():
            sim.mark_returned(it)
        for job in sorted(sim.live_jobs(), key=lambda j: j.key):
            sim.advance(job)
        for m in list(sim.inflight):
            sim.deliver(m)
        await sc.drv.loop()


async def run_step(sc, step) -> None:
    if step[0] == 'settle':
        await settle(sc, step[1])
    else:
        await sc.drv.step(*step)
