"""Helpers for C27 (and the reload part of C25): edits of a workflow AST,
a Driver with a `reload-edit` step, pool snapshots with per-prerequisite
detail.

An *edit* turns a WfSpec (vf/gen/wfspec.py) into another valid WfSpec:

    unchanged      the same definition
    add-task       a new task (lone node or child of an existing task)
    add-prereq     a new dependency line  <atoms> => t  onto an existing task
    add-output     a new custom output on an existing task (optionally used
                   by a new dependency line onto a later-ranked task)
    remove-task    a task and every reference to it
    remove-prereq  one atom of a dependency line, or the whole left-hand side

Edits are constructive (no rejection): same-cycle atoms only from
lower-ranked tasks that live on the section's sequence, negative offsets only
where the upstream instance exists (or is pre-initial), never onto a task
that is the source of a future / absolute trigger (cycles).  Cycling mode,
cycle bounds, recurrences and `extra` never change, so `point_maps` stays
valid across a reload.
"""
from __future__ import annotations

import copy
from typing import Dict, List, Optional, Set, Tuple

from hypothesis import strategies as st

from vf.gen.wfspec import (
    NAME_POOL, _draw_output, _prune, atoms_of, rec_points, render_flow)
from vf.sim.drive import Driver, SCase
from vf.sim.model import Model, atom_target, expand_out, valid_points

EDIT_KINDS = ['unchanged', 'add-task', 'add-prereq', 'add-output',
              'remove-task', 'remove-prereq']

EDIT_WEIGHTED = (['unchanged', 'add-task', 'add-output']
                 + ['add-prereq'] * 3 + ['remove-task'] * 2
                 + ['remove-prereq'] * 2)

_NEW_OUT_NAMES = ['z', 'new-out', 'z_2']


def _rank(spec):
    return {t: i for i, t in enumerate(spec['tasks'])}


def section_members(spec: dict, sec: dict) -> List[str]:
    """Tasks that live on this section's sequence (right-hand side, lone
    node or un-offset left-hand side), in rank order."""
    mem = set()
    for ln in sec['lines']:
        mem.update(ln['rhs'])
        for a in atoms_of(ln['lhs']):
            if not a.get('off') and a.get('abs') is None:
                mem.add(a['t'])
    return sorted(mem, key=spec['tasks'].index)


def _special_sources(spec) -> Set[str]:
    """Tasks used as source of a future or absolute trigger."""
    out = set()
    for sec in spec['sections']:
        for ln in sec['lines']:
            for a in atoms_of(ln['lhs']):
                if a.get('abs') is not None or (a.get('off') or 0) > 0:
                    out.add(a['t'])
    return out


def prereq_candidates(spec: dict) -> List[list]:
    """[[section index, target task, upstream task, offset]] that may be
    added without creating a cycle or an off-sequence upstream instance."""
    icp, fcp = spec['icp'], spec['fcp']
    valid = valid_points(spec)
    rank = _rank(spec)
    special = _special_sources(spec)
    out = []
    for si, sec in enumerate(spec['sections']):
        pts = rec_points(sec['rec'], icp, fcp)
        mem = section_members(spec, sec)
        targets = sorted({t for ln in sec['lines'] for t in ln['rhs']},
                         key=spec['tasks'].index)
        for t in targets:
            if t in special:
                continue
            for u in mem:
                if rank[u] < rank[t]:
                    out.append([si, t, u, 0])
            if sec['rec']['kind'] == 'P':
                for u in spec['tasks']:
                    for mult in (1, 2):
                        off = -sec['rec']['step'] * mult
                        if all((p + off < icp) or (p + off in valid[u])
                               for p in pts) and any(
                                   p + off >= icp for p in pts):
                            out.append([si, t, u, off])
    return out


def _default_opt():
    return {'succ': False, 'submit': False, 'fail_required': False,
            'custom': {}}


def _mk_atom(draw, spec, u, off):
    a = {'t': u, 'off': off or None, 'abs': None}
    a['out'] = _draw_output(draw, spec, u, {})
    a['implicit'] = draw(st.booleans())
    a['longform'] = draw(st.integers(0, 3)) == 0
    return a


def normalise(spec: dict) -> Optional[dict]:
    """Drop tasks that no longer have a home, atoms that refer to them,
    duplicate lone lines and empty sections.  None if nothing is left."""
    for _ in range(10):
        valid = valid_points(spec)
        gone = [t for t in spec['tasks'] if not valid.get(t)]
        if not gone:
            break
        for t in gone:
            _remove_task(spec, t)
    else:
        return None
    for sec in spec['sections']:
        seen = set()
        lines = []
        for ln in sec['lines']:
            if ln['lhs'] is None:
                key = tuple(ln['rhs'])
                if key in seen:
                    continue
                seen.add(key)
            lines.append(ln)
        sec['lines'] = lines
    spec['sections'] = [s for s in spec['sections'] if s['lines']]
    if not spec['sections'] or not spec['tasks']:
        return None
    return spec


def _lone_lines(lhs, drop: Set[str]) -> List[dict]:
    """Lone-node lines that keep the un-offset left-hand tasks of a removed
    line on the section's sequence."""
    out = []
    for a in atoms_of(lhs):
        if (not a.get('off') and a.get('abs') is None
                and a['t'] not in drop):
            out.append({'lhs': None, 'rhs': [a['t']]})
    return out


def _remove_task(spec: dict, x: str) -> None:
    for sec in spec['sections']:
        lines = []
        for ln in sec['lines']:
            rhs = [t for t in ln['rhs'] if t != x]
            bad = [a for a in atoms_of(ln['lhs']) if a['t'] == x]
            lhs = _prune(ln['lhs'], bad) if bad else ln['lhs']
            if not rhs:
                lines += _lone_lines(lhs, {x})
                continue
            if bad:
                # un-offset atoms kept their tasks on the sequence: x is
                # going away, nothing to keep
                pass
            lines.append({'lhs': lhs, 'rhs': rhs})
        sec['lines'] = lines
    spec['tasks'] = [t for t in spec['tasks'] if t != x]
    for k in ('custom', 'opt', 'retries'):
        spec.get(k, {}).pop(x, None)
    ex = spec.get('extra', {})
    for q in ex.get('queues') or []:
        if q.get('members'):
            q['members'] = [m for m in q['members'] if m != x] or None


@st.composite
def edits(draw, spec: dict, kinds=None) -> dict:
    """Draw one edit of `spec`: {'kind', 'spec' (the edited AST), 'what'}."""
    kinds = list(kinds or EDIT_WEIGHTED)
    kind = draw(st.sampled_from(kinds))
    new = copy.deepcopy(spec)
    what: dict = {}
    if kind == 'add-task':
        free = [n for n in NAME_POOL + ['zz', 'new1'] if n not in new['tasks']]
        name = draw(st.sampled_from(free))
        si = draw(st.integers(0, len(new['sections']) - 1))
        sec = new['sections'][si]
        mem = section_members(new, sec)
        new['tasks'].append(name)
        new['opt'][name] = _default_opt()
        if mem and draw(st.booleans()):
            u = draw(st.sampled_from(mem))
            atom = _mk_atom(draw, new, u, 0)
            sec['lines'].append({'lhs': atom, 'rhs': [name]})
        else:
            sec['lines'].append({'lhs': None, 'rhs': [name]})
        what = {'task': name, 'section': si}
    elif kind == 'add-prereq':
        cands = prereq_candidates(new)
        if not cands:
            kind = 'unchanged'
        else:
            si, t, u, off = draw(st.sampled_from(cands))
            atoms = [_mk_atom(draw, new, u, off)]
            if draw(st.integers(0, 3)) == 0:
                more = [c for c in cands if c[0] == si and c[1] == t
                        and (c[2], c[3]) != (u, off)]
                if more:
                    _si, _t, u2, off2 = draw(st.sampled_from(more))
                    atoms.append(_mk_atom(draw, new, u2, off2))
            tree = atoms[0] if len(atoms) == 1 else {
                'op': draw(st.sampled_from(['&', '|'])), 'args': atoms}
            new['sections'][si]['lines'].append({'lhs': tree, 'rhs': [t]})
            what = {'task': t, 'section': si,
                    'atoms': [[a['t'], a['off'] or 0, a['out']]
                              for a in atoms]}
    elif kind == 'add-output':
        t = draw(st.sampled_from(new['tasks']))
        have = new.setdefault('custom', {}).setdefault(t, {})
        names = [n for n in _NEW_OUT_NAMES if n not in have]
        nm = names[0]
        have[nm] = draw(st.sampled_from([nm, f'{nm} done',
                                         f'the {nm} file is ready']))
        new['opt'].setdefault(t, _default_opt()).setdefault(
            'custom', {})[nm] = draw(st.booleans())
        what = {'task': t, 'output': nm}
        if draw(st.booleans()):
            # use it: a new line  t:nm => v  onto a later-ranked task
            rank = _rank(new)
            special = _special_sources(new)
            cands = []
            for si, sec in enumerate(new['sections']):
                mem = section_members(new, sec)
                if t not in mem:
                    continue
                for v in {r for ln in sec['lines'] for r in ln['rhs']}:
                    if rank[v] > rank[t] and v not in special:
                        cands.append([si, v])
            cands.sort()
            if cands:
                si, v = draw(st.sampled_from(cands))
                new['sections'][si]['lines'].append({
                    'lhs': {'t': t, 'off': None, 'abs': None, 'out': nm,
                            'implicit': True, 'longform': False},
                    'rhs': [v]})
                what['used_by'] = v
    elif kind == 'remove-task':
        if len(new['tasks']) < 2:
            kind = 'unchanged'
        else:
            x = draw(st.sampled_from(new['tasks']))
            _remove_task(new, x)
            what = {'task': x}
    elif kind == 'remove-prereq':
        lines = [(si, li) for si, sec in enumerate(new['sections'])
                 for li, ln in enumerate(sec['lines'])
                 if ln['lhs'] is not None]
        if not lines:
            kind = 'unchanged'
        else:
            si, li = draw(st.sampled_from(lines))
            sec = new['sections'][si]
            ln = sec['lines'][li]
            ats = atoms_of(ln['lhs'])
            if len(ats) > 1 and draw(st.booleans()):
                a = ats[draw(st.integers(0, len(ats) - 1))]
                keep = _lone_lines(a, set())
                ln['lhs'] = _prune(ln['lhs'], [a])
                sec['lines'] += keep
                what = {'task': ln['rhs'][0], 'atom': [a['t'], a['off'] or 0,
                                                       a['out']]}
            else:
                keep = _lone_lines(ln['lhs'], set())
                ln['lhs'] = None
                sec['lines'] += keep
                what = {'task': ln['rhs'][0], 'atom': None}
    if kind != 'unchanged':
        new = normalise(new)
        if new is None:
            kind, new, what = 'unchanged', copy.deepcopy(spec), {}
    return {'kind': kind, 'spec': new, 'what': what}


# ---------------------------------------------------------------------------
# AST level prerequisite keys

def out_message(spec: dict, t: str, out: str) -> str:
    """The string cylc stores in a prerequisite for output `out` of t (the
    output *message*; standard outputs are their own message)."""
    return spec.get('custom', {}).get(t, {}).get(out, out)


def ast_prereq_keys(spec: dict, model: Model, to_str, t: str, p: int
                    ) -> Set[str]:
    """Prerequisite atoms of instance (t, p) per the AST, as the strings
    used in pool snapshots: '<cycle>/<task>:<output message>' (including
    pre-initial ones, which cylc keeps as satisfied atoms)."""
    keys = set()
    if t not in model.lines:
        return keys
    for tr in model.trees_at(t, p):
        for a in atoms_of(tr):
            q = atom_target(a, p)
            cyc = to_str.get(q, str(q))
            for o in expand_out(a['out']):
                keys.add(f'{cyc}/{a["t"]}:{out_message(spec, a["t"], o)}')
    return keys


# ---------------------------------------------------------------------------
# pool snapshot with per-prerequisite detail (observation only)

def snap_task(itask) -> dict:
    pres = []
    for pre in itask.state.prerequisites:
        pres.append({f'{k.point}/{k.task}:{k.output}': bool(v)
                     for k, v in pre.items()})
    sat: Dict[str, Optional[bool]] = {}
    for d in pres:
        for k, v in d.items():
            if k in sat and sat[k] != v:
                sat[k] = None       # inconsistent between prerequisites
            else:
                sat.setdefault(k, v)
    return {
        'cycle': str(itask.point), 'name': itask.tdef.name,
        'status': itask.state.status,
        'held': bool(itask.state.is_held),
        'queued': bool(itask.state.is_queued),
        'runahead': bool(itask.state.is_runahead),
        'flows': sorted(itask.flow_nums),
        'submit_num': itask.submit_num,
        'outputs': sorted(itask.state.outputs.get_completed_outputs()),
        'sat': sat, 'pres': pres,
        'manual': bool(itask.is_manual_submit),
    }


def snap_pool(schd) -> Dict[str, dict]:
    return {f'{t.point}/{t.tdef.name}': snap_task(t)
            for t in schd.pool.get_tasks()}


# ---------------------------------------------------------------------------
# driver

class ReloadDriver(Driver):
    """Driver with a `reload-edit` step: `['reload-edit', i]` writes the
    rendered flow of `reloads[i % len]['spec']` to the run directory and
    issues the real reload command.  After a reload that reached the task
    pool the driver's spec / model (job scripts, target picking) follow the
    new definition."""

    COMMANDS = Driver.COMMANDS + ('reload-edit', 'remove-partial')

    async def cmd_remove_partial(self, n):
        """`cylc remove` of a waiting task that has some prerequisites
        satisfied and others not (n-th such task; nothing if there is none).
        When its remaining parents finish it is spawned again, with the
        prerequisites on the outputs that are already recorded unsatisfied."""
        from cylc.flow import commands
        sim = self.sim
        if not sim.running:
            return
        snap = sim.pool_snapshot()
        cands = sorted(
            f"{a['cycle']}/{a['name']}" for a in snap
            if a['status'] == 'waiting' and a.get('sat')
            and any(a['sat'].values()) and not all(a['sat'].values()))
        if not cands:
            return
        id_ = cands[n % len(cands)]
        await self._run('remove', commands.remove_tasks(sim.schd, [id_], []),
                        task=id_, flow=[], partial=True)

    async def step(self, op, n, *rest) -> None:
        if op == 'round':
            # one round of the fair schedule: every pending command returns,
            # every live job emits its next message, everything in flight is
            # delivered, one main-loop iteration
            sim = self.sim
            for it in sim.pending_cmds():
                sim.mark_returned(it)
            for job in sorted(sim.live_jobs(), key=lambda j: j.key):
                sim.advance(job)
            for m in list(sim.inflight):
                sim.deliver(m)
            await self.loop()
            return
        await super().step(op, n, *rest)

    def __init__(self, spec, outcomes, ctx, run_opts=None, flow_text=None,
                 reloads=None):
        super().__init__(spec, outcomes, ctx, run_opts=run_opts,
                         flow_text=flow_text)
        self.reloads = reloads or []
        self.cur_spec = spec
        self.reload_log: List[dict] = []      # filled by reload monitors

    async def cmd_reload_edit(self, n):
        from cylc.flow import commands
        sim = self.sim
        if not sim.running or not self.reloads:
            return
        i = n % len(self.reloads)
        ent = self.reloads[i]
        text = render_flow(ent['spec'])
        (sim.run_dir / 'flow.cylc').write_text(text)
        self.pending_edit = {'index': i, 'kind': ent['kind'],
                             'old': self.cur_spec, 'new': ent['spec'],
                             'applied': False}
        await self._run_any('reload', commands.reload_workflow(sim.schd),
                            edit=ent['kind'], index=i)
        pe = self.pending_edit
        sim.trace[-1]['applied'] = pe['applied']
        if pe['applied']:
            self.cur_spec = ent['spec']
            self.spec = ent['spec']
            self.model = Model(ent['spec'])
        else:
            # rejected by validation: the scheduler keeps the old config;
            # put the old text back so that a later plain reload is a no-op
            (sim.run_dir / 'flow.cylc').write_text(render_flow(self.cur_spec))
        self.pending_edit = None

    async def _run_any(self, name, gen, **info):
        """As Driver._run, but an exception of any type raised by the
        command is recorded (the scheduler's command queue logs it and
        carries on) instead of escaping as a harness error."""
        from cylc.flow import commands
        sim = self.sim
        before = sim.pool_snapshot()
        err = None
        raised = None
        try:
            await commands.run_cmd(gen)
        except Exception as exc:     # noqa: BLE001
            from cylc.flow.exceptions import CylcError, InputError
            err = f'{type(exc).__name__}: {exc}'
            if not isinstance(exc, (CylcError, InputError, ValueError)):
                from vf.core import exc_sig
                raised = exc_sig(exc)
        sim.ev('cmd', cmd=name, err=err, raised=raised, before=before,
               after=sim.pool_snapshot(), **info)
        for fn in self.after_cmd:
            fn(self, name)

    async def cmd_reload(self, n):
        from cylc.flow import commands
        if not self.sim.running:
            return
        self.pending_edit = {'index': None, 'kind': 'unchanged',
                             'old': self.cur_spec, 'new': self.cur_spec,
                             'applied': False}
        await self._run_any('reload', commands.reload_workflow(self.sim.schd))
        if self.sim.trace and self.sim.trace[-1].get('k') == 'cmd':
            self.sim.trace[-1]['applied'] = self.pending_edit['applied']
        self.pending_edit = None

    pending_edit: Optional[dict] = None


class RSCase(SCase):
    """SCase using ReloadDriver (case['reloads'] = list of edits)."""

    def __init__(self, case, ctx, run_opts=None, start_opts=None,
                 flow_text=None):
        self.case = case
        self.ctx = ctx
        self.spec = case['spec']
        self.outcomes = case.get('outcomes') or {}
        self.schedule = case.get('schedule') or []
        self.drv = ReloadDriver(
            self.spec, self.outcomes, ctx, run_opts=run_opts,
            flow_text=flow_text, reloads=case.get('reloads') or [])
        self.sim = self.drv.sim
        self.model = self.drv.model
        self.start_opts = start_opts or {}
        self.rejected = None
        self.startup_crash = None
        self.shut = False
        self.quiescent = False


# ---------------------------------------------------------------------------
# reload monitor

def db_outputs(path) -> Set[str]:
    """'<cycle>/<task>:<message>' for every output message recorded in the
    task_outputs table (read through a fresh read-only connection)."""
    import json
    import sqlite3
    out: Set[str] = set()
    try:
        con = sqlite3.connect(f'file:{path}?mode=ro', uri=True, timeout=5)
    except sqlite3.Error:
        return out
    try:
        rows = con.execute(
            'SELECT cycle, name, outputs FROM task_outputs').fetchall()
    except sqlite3.Error:
        rows = []
    finally:
        con.close()
    for cyc, name, outs in rows:
        try:
            d = json.loads(outs)
        except (TypeError, ValueError):
            continue
        msgs = d.values() if isinstance(d, dict) else d
        for m in msgs:
            out.add(f'{cyc}/{name}:{m}')
    return out


def install_reload_monitor(drv: 'ReloadDriver') -> None:
    """Wrap this incarnation's TaskPool.reload: record the pool immediately
    before and after the definitions are swapped, plus what the scheduler
    had recorded as completed at that moment (pool + removed tasks + DB)."""
    sim = drv.sim
    schd = sim.schd
    pool = schd.pool
    orig = pool.reload

    def reload(config):
        before = snap_pool(schd)
        recorded_labels = set(sim.completed_now())
        recorded_db = db_outputs(schd.workflow_db_mgr.pri_path)
        n0 = len(sim.trace)
        r = orig(config)
        after = snap_pool(schd)
        pe = drv.pending_edit
        if pe is not None:
            pe['applied'] = True
        drv.reload_log.append({
            'before': before, 'after': after, 'edit': pe,
            'recorded_labels': recorded_labels, 'recorded_db': recorded_db,
            'it': sim.iteration, 'n0': n0, 'n1': len(sim.trace),
            'end': None, 'paused': bool(schd.is_paused),
        })
        return r

    pool.reload = reload


def dev_dump(prop, case, res) -> None:
    """Development aid (never set by the registered commands): with
    VF_DUMP_CLASS=<substring> and VF_DUMP_DIR=<dir> write every case having
    a class label / violation signature containing the substring."""
    import json
    import os
    pat = os.environ.get('VF_DUMP_CLASS')
    ddir = os.environ.get('VF_DUMP_DIR')
    if not pat or not ddir:
        return
    labels = list(res.classes) + [v.sig for v in res.violations]
    if any(pat in c for c in labels):
        from vf.core import jhash
        with open(os.path.join(ddir, f'{prop}-{jhash(case)}.json'), 'w') as f:
            json.dump({'property': prop, 'case': case}, f)


SPIN_MSG = 'harness: scheduler spinning on empty pool'


def harness_spin(sim) -> bool:
    """The engine aborted the run because the scheduler looped inside one
    call (reload's "wait for preparing tasks", shutdown's "wait for the
    process pool") with nothing left that could make progress.  The engine
    cannot continue such a run; the case is counted inconclusive."""
    for exc in (sim.crashed, sim.shutdown_reason):
        if isinstance(exc, RuntimeError) and SPIN_MSG in str(exc):
            return True
    return any(e.get('k') == 'cmd' and SPIN_MSG in str(e.get('err'))
               for e in sim.trace)


def crash_violations(sc, prop):
    """sc.crash_violations(prop) without the engine's own spin abort."""
    if harness_spin(sc.sim):
        return []
    return sc.crash_violations(prop)
