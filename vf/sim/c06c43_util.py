"""Helpers shared by vf/props/c06.py and vf/props/c43.py (engine S).

Nothing here changes the shared engine: extra schedule op ``fair`` (k fair
rounds inside the generated schedule, so that commands are interleaved with a
run that has progressed), a wrapper around ``Driver._run`` giving a module a
hook *before* and after every command, and read-only access to the private
run database through a fresh sqlite3 connection.
"""
from __future__ import annotations

import sqlite3
from typing import Callable, List, Optional, Tuple


async def fair_rounds(drv, k: int) -> None:
    """k rounds of the deterministic fair schedule (as one drain round):
    return every pending command, every live job takes its next step, every
    in-flight message is delivered, one main-loop iteration."""
    sim = drv.sim
    for _ in range(k):
        if not sim.running:
            return
        for it in sim.pending_cmds():
            sim.mark_returned(it)
        for job in sorted(sim.live_jobs(), key=lambda j: j.key):
            sim.advance(job)
        for m in list(sim.inflight):
            sim.deliver(m)
        await drv.loop()


async def run_schedule_ext(sc, schedule=None) -> None:
    """SCase.run_schedule plus the op ['fair', n] = (n % 4) + 1 fair rounds."""
    for step in (sc.schedule if schedule is None else schedule):
        if not sc.sim.running:
            break
        if step[0] == 'fair':
            await fair_rounds(sc.drv, step[1] % 4 + 1)
        else:
            await sc.drv.step(*step)


def wrap_commands(drv, pre: Optional[Callable] = None,
                  post: Optional[Callable] = None) -> None:
    """Call pre(name, info) before and post(name, info, cmd_event) after every
    command the driver issues (Driver._run is looked up on the instance)."""
    orig = drv._run

    async def _run(name, gen, **info):
        if pre is not None:
            pre(name, info)
        await orig(name, gen, **info)
        # Scheduler.process_command_queue marks the workflow updated after
        # every actioned command (resets a stale stall flag, refreshes the
        # data store ...); commands run directly must do the same
        ev = drv.sim.trace[-1]
        if drv.sim.schd is not None and ev.get('k') == 'cmd' \
                and not ev.get('err'):
            drv.sim.schd.is_updated = True
        if post is not None:
            post(name, info, drv.sim.trace[-1])

    drv._run = _run


def return_polls_promptly(drv) -> None:
    """after_loop hook: a jobs-poll command (here only the restart poll of
    every active task) launched in one main-loop iteration returns in the
    next, i.e. before any job message emitted after the poll looked at the
    job is processed.  A poll result that comes back after newer messages
    have been processed is believed by the scheduler - the recorded C09/C10
    finding (late poll result) - and is kept out of these schedules."""
    for it in drv.sim.pending_cmds():
        if it.get('kind') == 'jobs-poll':
            drv.sim.mark_returned(it)


def db_path(sim) -> str:
    return str(sim.run_dir / '.service' / 'db')


def read_db(sim) -> dict:
    """{'holdcp', 'stopcp', 'stop_task', 'tasks_to_hold': sorted ['cycle/name'],
    'pool': {ident: (status, is_held)}} from the private DB, fresh read-only
    connection (None values for missing keys; {} if the file is unreadable)."""
    out: dict = {}
    try:
        con = sqlite3.connect(f'file:{db_path(sim)}?mode=ro', uri=True,
                              timeout=5)
    except sqlite3.Error:
        return out
    try:
        params = dict(con.execute(
            'SELECT key, value FROM workflow_params').fetchall())
        out['holdcp'] = params.get('holdcp')
        out['stopcp'] = params.get('stopcp')
        out['stop_task'] = params.get('stop_task')
        out['tasks_to_hold'] = sorted(
            f'{c}/{n}' for n, c in con.execute(
                'SELECT name, cycle FROM tasks_to_hold').fetchall())
        out['pool'] = {
            f'{c}/{n}': (s, int(h)) for c, n, s, h in con.execute(
                'SELECT cycle, name, status, is_held FROM task_pool'
            ).fetchall()}
    except sqlite3.Error as exc:
        out['error'] = repr(exc)
    finally:
        con.close()
    return out


def scheduler_holds(sim) -> Tuple[List[str], Optional[str]]:
    """(sorted tasks_to_hold as 'cycle/name', hold point str|None) observed
    on the live scheduler object."""
    pool = sim.schd.pool
    held = sorted(f'{p}/{n}' for n, p in pool.tasks_to_hold)
    hp = pool.hold_point
    return held, (str(hp) if hp is not None else None)


def stop_kind(reason) -> str:
    """'auto' | 'clean' | 'now' | 'kill' | 'other' from a shutdown reason."""
    s = str(reason)
    if 'REQUEST(CLEAN)' in s:
        return 'clean'
    if 'REQUEST(NOW' in s:
        return 'now'
    if 'REQUEST(KILL)' in s:
        return 'kill'
    if 'AUTOMATIC' in s and 'FAILURE' not in s:
        return 'auto'
    return 'other'
