"""Run one generated case on engine S: schedule interpretation + fair drain."""
from __future__ import annotations

import asyncio
import itertools
import os
from typing import Any, Callable, Dict, List, Optional, Set, Tuple

from hypothesis import strategies as st

from vf.gen.wfspec import render_flow, render_point
from vf.sim.engine import Sim
from vf.sim.model import Model

_wid = itertools.count()

FAIL_MSG = 'failed/ERR'


def point_maps(spec) -> Tuple[Dict[str, int], Dict[int, str]]:
    to_int, to_str = {}, {}
    for n in range(spec['icp'] - 12, spec['fcp'] + 13):
        s = render_point(spec, n)
        to_int[s] = n
        to_str[n] = s
    return to_int, to_str


def outcome_for(outcomes: dict, t: str, p: int, sn: int) -> dict:
    lst = outcomes.get(f'{p}/{t}')
    if not lst:
        return {'final': None}
    return lst[sn - 1] if sn - 1 < len(lst) else lst[-1]


def default_final(spec: dict, t: str) -> str:
    return 'failed' if spec['opt'].get(t, {}).get('fail_required') else 'succeeded'


def job_messages(spec: dict, t: str, oc: dict) -> Tuple[List[str], bool]:
    """(messages the job emits in order, submit ok?)"""
    final = oc.get('final') or default_final(spec, t)
    if final == 'submit-fail':
        return [], False
    if final == 'vanish':
        # submission succeeds, the job then disappears without starting
        return [], 'vanish'
    msgs = ['started']
    skip = set(oc.get('skip') or ())
    for nm, msg in spec.get('custom', {}).get(t, {}).items():
        if nm not in skip:
            msgs.append(msg)
    msgs.append('succeeded' if final == 'succeeded' else FAIL_MSG)
    return msgs, True


def job_outputs(spec: dict, t: str, oc: dict) -> Set[str]:
    """Outputs (trigger names) one job completes when fully reported."""
    final = oc.get('final') or default_final(spec, t)
    if final == 'submit-fail':
        return {'submit-failed'}
    if final == 'vanish':
        return {'submitted', 'submit-failed'}
    outs = {'submitted', 'started'}
    skip = set(oc.get('skip') or ())
    for nm in spec.get('custom', {}).get(t, {}):
        if nm not in skip:
            outs.add(nm)
    outs.add('succeeded' if final == 'succeeded' else 'failed')
    return outs


def unheard_outputs(sim, spec) -> Dict[Tuple[str, str], Set[str]]:
    """Custom outputs whose job message reached the scheduler only after the
    task had left the pool: {(cycle, task): {output names}}.

    The schedule may deliver a job's messages out of order; if "succeeded"
    overtakes the message of an optional custom output the task completes
    and is removed, and the late message is (by design, with a warning)
    undeliverable.  From the scheduler's point of view that output was never
    produced, so a reference run must not count it either."""
    heard = set()
    removed_at: Dict[Tuple[str, str], int] = {}
    delivered: Dict[Tuple[str, str, str], int] = {}
    for ev in sim.trace:
        if ev['k'] == 'pm' and ev['flag'] != '(internal)':
            heard.add((ev['cycle'], ev['name'], ev['msg']))
        elif ev['k'] == 'remove':
            removed_at.setdefault((ev['cycle'], ev['name']), ev['it'])
        elif ev['k'] == 'deliver':
            cyc, name, _sn = ev['job'].split('/')
            delivered.setdefault((cyc, name, ev['msg']), ev['it'])
    out: Dict[Tuple[str, str], Set[str]] = {}
    for (cyc, name, msg), it in delivered.items():
        if (cyc, name, msg) in heard:
            continue
        gone = removed_at.get((cyc, name))
        # a delivered message is processed in the next main-loop iteration
        if gone is None or gone > it + 1:
            continue
        for nm, m in spec.get('custom', {}).get(name, {}).items():
            if m == msg:
                out.setdefault((cyc, name), set()).add(nm)
    return out


def heard_result_of(sim, spec, outcomes, to_str):
    """result_of(t, p) for Model.closure: the outputs of the first job of
    each instance as scripted, minus `unheard_outputs`.  Returns
    (result_of, unheard)."""
    unheard = unheard_outputs(sim, spec)

    def result_of(t, p):
        outs = job_outputs(spec, t, outcome_for(outcomes, t, p, 1))
        return outs - unheard.get((to_str.get(p), t), set())

    return result_of, unheard


# ---------------------------------------------------------------------------
# strategies

@st.composite
def outcome_maps(draw, spec, p_fail=0.15, p_skip=0.1, p_subfail=0.05,
                 max_subs=1):
    """Outcome assignment: exceptions to 'every job does the default'."""
    model = Model(spec)
    out = {}
    insts = model.instances()
    n_exc = draw(st.integers(0, min(4, len(insts))))
    if not insts:
        return out
    for _ in range(n_exc):
        t, p = draw(st.sampled_from(insts))
        lst = []
        for _k in range(draw(st.integers(1, max_subs))):
            kind = draw(st.integers(0, 9))
            o = spec['opt'].get(t, {})
            if kind <= 4:
                oc = {'final': 'failed' if not o.get('fail_required')
                      else 'succeeded'}
            elif kind <= 6 and spec.get('custom', {}).get(t):
                names = list(spec['custom'][t])
                oc = {'final': None,
                      'skip': [draw(st.sampled_from(names))]}
            elif kind == 7:
                oc = {'final': 'submit-fail'}
            else:
                oc = {'final': None}
            lst.append(oc)
        out[f'{p}/{t}'] = lst
    return out


def schedules(max_len=40, ops=('loop', 'ret', 'adv', 'del'), min_len=0):
    op = st.sampled_from(list(ops))
    return st.lists(st.tuples(op, st.integers(0, 7)).map(list),
                    min_size=min_len, max_size=max_len)


# ---------------------------------------------------------------------------

class RunResult:
    def __init__(self):
        self.sim: Optional[Sim] = None
        self.rejected: Optional[str] = None     # validation rejected the flow
        self.crash: Optional[BaseException] = None
        self.shutdown: Optional[str] = None     # reason string
        self.quiescent = False
        self.inconclusive = False
        self.launches: List[Tuple[str, int, int]] = []   # (task, point, submit_num)
        self.trace: List[dict] = []
        self.stalled = False
        self.flow_text = ''


class Driver:
    """Interprets schedule steps against a Sim."""

    def __init__(self, spec, outcomes, ctx, run_opts=None, flow_text=None):
        self.spec = spec
        self.outcomes = outcomes or {}
        self.ctx = ctx
        self.to_int, self.to_str = point_maps(spec)
        self.flow_text = flow_text or render_flow(spec)
        wid = f'w{os.getpid()}-{next(_wid)}'
        # outcomes keyed by rendered cycle strings for the engine
        self.sim = Sim(ctx.scratch, self.flow_text, wid,
                       run_opts=run_opts)
        self.sim._script_for = self._script_for
        self.after_loop: List[Callable] = []
        self.after_cmd: List[Callable] = []
        self.after_restart: List[Callable] = []
        self.model = Model(spec)

    async def loop(self) -> bool:
        alive = await self.sim.loop()
        for fn in self.after_loop:
            fn(self)
        return alive

    def _script_for(self, cycle, name, sn):
        p = self.to_int.get(cycle)
        oc = outcome_for(self.outcomes, name, p, sn)
        return job_messages(self.spec, name, oc)

    async def start(self, **opts):
        return await self.sim.start(**opts)

    COMMANDS = (
        'hold', 'release', 'hold-point', 'release-hold-point', 'trigger',
        'remove', 'set', 'pause', 'resume', 'stop-point', 'stop-task',
        'stop-clean', 'stop-now', 'kill', 'reload', 'restart',
    )

    async def step(self, op, n, *rest) -> None:
        sim = self.sim
        if op == 'loop':
            await self.loop()
        elif op == 'ret':
            pend = sim.pending_cmds()
            if pend:
                sim.mark_returned(pend[n % len(pend)])
        elif op == 'adv':
            jobs = sorted(sim.live_jobs(), key=lambda j: j.key)
            if jobs:
                sim.advance(jobs[n % len(jobs)])
        elif op == 'del':
            if sim.inflight:
                sim.deliver(sim.inflight[n % len(sim.inflight)])
        elif op == 'delr':
            if sim.inflight:
                sim.deliver(sim.inflight[-1 - (n % len(sim.inflight))])
        elif op == 'dup':
            if sim.inflight:
                sim.deliver(sim.inflight[n % len(sim.inflight)], keep=True)
        elif op == 'redel':
            # a message that was already delivered arrives once more, late
            # (network-level duplicate)
            if sim.delivered_log:
                m = sim.delivered_log[-1 - (n % min(len(sim.delivered_log), 6))]
                sim.deliver(dict(m), keep=True)
        elif op == 'drop':
            if sim.inflight:
                sim.drop(sim.inflight[n % len(sim.inflight)])
        elif op == 'tick':
            sim.clock.advance([1, 10, 60, 600, 3600, 86400, 5, 30][n % 8])
        elif op == 'poll':
            await self.cmd_poll(n)
        elif op in self.COMMANDS:
            await getattr(self, 'cmd_' + op.replace('-', '_'))(n, *rest)
        else:
            raise ValueError(op)

    async def cmd_poll(self, n):
        from cylc.flow import commands
        sim = self.sim
        if not sim.running:
            return
        tasks = [t for t in sim.schd.pool.get_tasks()
                 if t.state('submitted', 'running')]
        if not tasks:
            return
        tasks.sort(key=lambda t: t.identity)
        t = tasks[n % len(tasks)]
        await commands.run_cmd(commands.poll_tasks(sim.schd, [t.identity]))
        sim.ev('cmd-poll', task=t.identity)

    # -- commands ------------------------------------------------------------
    def instance_ids(self) -> List[str]:
        """All model instances as relative IDs, in a fixed order."""
        return [f'{self.to_str[p]}/{t}' for (t, p) in self.model.instances()]

    def pool_ids(self, *statuses) -> List[str]:
        tasks = self.sim.schd.pool.get_tasks()
        if statuses:
            tasks = [t for t in tasks if t.state(*statuses)]
        return sorted(t.identity for t in tasks)

    def pick(self, n, prefer_pool=True, statuses=()) -> Optional[str]:
        """Even n: the n/2-th pool task; odd n: the n/2-th model instance
        (may be finished, or not yet spawned)."""
        pool = self.pool_ids(*statuses) if self.sim.running else []
        allids = self.instance_ids()
        if n % 2 == 0 and pool:
            return pool[(n // 2) % len(pool)]
        if statuses:
            return pool[(n // 2) % len(pool)] if pool else None
        if allids:
            return allids[(n // 2) % len(allids)]
        return None

    async def _run(self, name, gen, **info):
        from cylc.flow import commands
        from cylc.flow.exceptions import CylcError, InputError
        sim = self.sim
        before = sim.pool_snapshot()
        err = None
        try:
            await commands.run_cmd(gen)
        except (CylcError, InputError, ValueError) as exc:
            err = f'{type(exc).__name__}: {exc}'
        sim.ev('cmd', cmd=name, err=err, before=before,
               after=sim.pool_snapshot(), **info)
        for fn in self.after_cmd:
            fn(self, name)

    async def cmd_hold(self, n):
        from cylc.flow import commands
        id_ = self.pick(n)
        if id_ and self.sim.running:
            await self._run('hold', commands.hold(self.sim.schd, [id_]),
                            task=id_)

    async def cmd_release(self, n):
        from cylc.flow import commands
        id_ = self.pick(n)
        if id_ and self.sim.running:
            await self._run('release', commands.release(self.sim.schd, [id_]),
                            task=id_)

    async def cmd_hold_point(self, n):
        from cylc.flow import commands
        if not self.sim.running:
            return
        p = self.spec['icp'] + n % (self.spec['fcp'] - self.spec['icp'] + 1)
        await self._run('hold-point', commands.set_hold_point(
            self.sim.schd, self.to_str[p]), point=p)

    async def cmd_release_hold_point(self, n):
        from cylc.flow import commands
        if self.sim.running:
            await self._run('release-hold-point',
                            commands.release_hold_point(self.sim.schd))

    async def cmd_trigger(self, n, flow=None, wait=False):
        from cylc.flow import commands
        id_ = self.pick(n)
        if id_ and self.sim.running:
            await self._run('trigger', commands.force_trigger_tasks(
                self.sim.schd, [id_], list(flow or []), flow_wait=wait),
                task=id_, flow=list(flow or []))

    async def cmd_remove(self, n, flow=None):
        from cylc.flow import commands
        id_ = self.pick(n)
        if id_ and self.sim.running:
            await self._run('remove', commands.remove_tasks(
                self.sim.schd, [id_], list(flow or [])),
                task=id_, flow=list(flow or []))

    async def cmd_set(self, n, outputs=None, prereqs=None, flow=None,
                      wait=False):
        from cylc.flow import commands
        id_ = self.pick(n)
        if id_ and self.sim.running:
            await self._run('set', commands.set_prereqs_and_outputs(
                self.sim.schd, [id_], list(flow or []),
                outputs=outputs, prerequisites=prereqs, flow_wait=wait),
                task=id_, outputs=outputs, prereqs=prereqs,
                flow=list(flow or []))

    async def cmd_pause(self, n):
        from cylc.flow import commands
        if self.sim.running:
            await self._run('pause', commands.pause(self.sim.schd))

    async def cmd_resume(self, n):
        from cylc.flow import commands
        if self.sim.running:
            await self._run('resume', commands.resume(self.sim.schd))

    async def cmd_stop_point(self, n):
        from cylc.flow import commands
        if not self.sim.running:
            return
        p = self.spec['icp'] + n % (self.spec['fcp'] - self.spec['icp'] + 1)
        await self._run('stop-point', commands.stop(
            self.sim.schd, None, cycle_point=self.to_str[p]), point=p)
        # accepted iff the scheduler's stop point is now this point
        ev = self.sim.trace[-1]
        ev['accepted'] = (
            str(self.sim.schd.pool.stop_point) == self.to_str[p])

    async def cmd_stop_task(self, n):
        from cylc.flow import commands
        id_ = self.pick(n)
        if id_ and self.sim.running:
            await self._run('stop-task', commands.stop(
                self.sim.schd, None, task=id_), task=id_)

    async def cmd_stop_clean(self, n):
        from cylc.flow import commands
        from cylc.flow.workflow_status import StopMode
        if self.sim.running:
            await self._run('stop-clean', commands.stop(
                self.sim.schd, StopMode.REQUEST_CLEAN))

    async def cmd_stop_now(self, n):
        from cylc.flow import commands
        from cylc.flow.workflow_status import StopMode
        if self.sim.running:
            await self._run('stop-now', commands.stop(
                self.sim.schd, StopMode.REQUEST_NOW))

    async def cmd_kill(self, n):
        from cylc.flow import commands
        id_ = self.pick(n, statuses=('submitted', 'running', 'preparing'))
        if id_ and self.sim.running:
            await self._run('kill', commands.kill_tasks(
                self.sim.schd, [id_]), task=id_)

    async def cmd_reload(self, n):
        from cylc.flow import commands
        if self.sim.running:
            await self._run('reload', commands.reload_workflow(self.sim.schd))

    # -- stop / restart --------------------------------------------------------
    async def stop_and_wait(self, mode='now', cap=400) -> bool:
        """Issue a real stop command and step until the scheduler is down.

        mode 'now'  : `cylc stop --now` - no job is advanced, no message
                      delivered while it shuts down (active jobs are left);
             'clean': `cylc stop` - active jobs are run to completion under
                      the fair schedule (the scheduler waits for them).
        Returns True once the scheduler has shut down."""
        sim = self.sim
        if not sim.running:
            return True
        await getattr(self, 'cmd_stop_' + mode)(0)
        for _ in range(cap):
            if not sim.running:
                break
            if mode == 'clean':
                for it in sim.pending_cmds():
                    sim.mark_returned(it)
                for job in sorted(sim.live_jobs(), key=lambda j: j.key):
                    # only jobs the scheduler waits for: those of active tasks
                    sim.advance(job)
                for m in list(sim.inflight):
                    sim.deliver(m)
            if not await self.loop():
                break
        return not sim.running

    async def restart(self, **opts):
        """Start a new scheduler incarnation on the same run directory."""
        sim = self.sim
        assert not sim.running
        if sim.crashed is not None:
            raise sim.crashed
        await self.start(**opts)
        sim.ev('restarted', pool=sim.pool_snapshot())
        for fn in self.after_restart:
            fn(self)

    async def cmd_restart(self, n):
        """Schedule step: stop (n%2: 0 --now, 1 clean), let jobs carry on
        while the scheduler is down ((n//2)%3: 0 nothing, 1 one step each,
        2 to the end; their messages are lost, as a real `cylc message` to a
        stopped scheduler fails), then restart."""
        sim = self.sim
        if not sim.running:
            return
        mode = 'now' if n % 2 == 0 else 'clean'
        down = await self.stop_and_wait(mode)
        if not down or sim.crashed is not None:
            return
        act = (n // 2) % 3
        for m in list(sim.inflight):
            sim.deliver(m)       # -> msg-lost
        if act:
            for _ in range(1 if act == 1 else 20):
                for job in sorted(sim.live_jobs(), key=lambda j: j.key):
                    msg = sim.advance(job)
                    if msg is not None:
                        sim.deliver(msg)     # lost
        await self.restart()

    async def drain(self, cap=2000, quiet_needed=25, delays=None,
                    ret_delays=None, poll_every=0) -> Tuple[bool, bool]:
        """Deterministic fair schedule until shutdown or quiescence.

        delays: per-message delivery delays in drain rounds (consumed
        cyclically in emission order; default none = deliver at once, FIFO);
        ret_delays: same for process-pool command returns; poll_every: issue
        a user poll of all active tasks every k-th round.
        Every message is eventually delivered, every command returned.

        Returns (shut_down, quiescent)."""
        sim = self.sim
        quiet = 0
        rnd = 0
        n_msg = 0
        n_cmd = 0
        due = {}        # id(msg) -> round
        cdue = {}       # cmd id -> round
        for _ in range(cap):
            if not sim.running:
                return True, False
            rnd += 1
            progressed = False
            for it in sim.pending_cmds():
                if ret_delays and it['id'] not in cdue:
                    cdue[it['id']] = rnd + ret_delays[n_cmd % len(ret_delays)]
                    n_cmd += 1
                if cdue.get(it['id'], 0) <= rnd:
                    sim.mark_returned(it)
                progressed = True
            for job in sorted(sim.live_jobs(), key=lambda j: j.key):
                sim.advance(job)
                progressed = True
            for m in list(sim.inflight):
                if delays and id(m) not in due:
                    due[id(m)] = rnd + delays[n_msg % len(delays)]
                    n_msg += 1
                if due.get(id(m), 0) <= rnd:
                    sim.deliver(m)
                progressed = True
            if poll_every and rnd % poll_every == 0 and rnd < 200:
                await self.cmd_poll_all()
            n0 = len(sim.trace)
            alive = await self.loop()
            if not alive:
                return True, False
            # did the iteration do anything observable?
            evs = [e for e in sim.trace[n0:]
                   if e['k'] != 'iter-end'
                   and not (e['k'] == 'q-release' and not e['released'])]
            if progressed or evs or sim.pending_cmds() or sim.inflight:
                quiet = 0
            else:
                quiet += 1
                # let retry timers etc. expire
                sim.clock.advance(1.0)
                if quiet >= quiet_needed:
                    return False, True
        return False, False

    async def cmd_poll_all(self):
        from cylc.flow import commands
        sim = self.sim
        if not sim.running:
            return
        if any(t.state('submitted', 'running')
               for t in sim.schd.pool.get_tasks()):
            await commands.run_cmd(commands.poll_tasks(sim.schd, ['*/*']))
            sim.ev('cmd-poll', task='*/*')

    def launches(self) -> List[Tuple[str, int, int]]:
        return [(name, self.to_int.get(cycle, cycle), sn)
                for (cycle, name, sn) in self.sim.journal]


def run_async(coro):
    """Run a coroutine on a fresh event loop; make sure nothing survives."""
    loop = asyncio.new_event_loop()
    try:
        asyncio.set_event_loop(loop)
        return loop.run_until_complete(coro)
    finally:
        try:
            pending = asyncio.all_tasks(loop)
            for t in pending:
                t.cancel()
            if pending:
                loop.run_until_complete(
                    asyncio.gather(*pending, return_exceptions=True))
        finally:
            asyncio.set_event_loop(None)
            loop.close()


# ---------------------------------------------------------------------------

class SCase:
    """async context manager: start a generated case, tear it down.

        async with SCase(case, ctx) as sc:
            if sc.rejected: ...
            await sc.run_schedule(); shut, quiescent = await sc.drain()
    """

    def __init__(self, case, ctx, run_opts=None, start_opts=None,
                 flow_text=None):
        self.case = case
        self.ctx = ctx
        self.spec = case['spec']
        self.outcomes = case.get('outcomes') or {}
        self.schedule = case.get('schedule') or []
        self.drv = Driver(self.spec, self.outcomes, ctx, run_opts=run_opts,
                          flow_text=flow_text)
        self.sim = self.drv.sim
        self.model = self.drv.model
        self.start_opts = start_opts or {}
        self.rejected: Optional[str] = None
        self.startup_crash: Optional[BaseException] = None
        self.shut = False
        self.quiescent = False

    async def __aenter__(self):
        from cylc.flow.exceptions import CylcError
        from cylc.flow.parsec.exceptions import ParsecError
        sim = self.sim
        try:
            await self.drv.start(**self.start_opts)
        except (CylcError, ParsecError) as exc:
            self.rejected = type(exc).__name__
            self.ctx.col.rejected += 1
            return self
        except Exception as exc:
            # start-up died with an unexpected exception type on a workflow
            # that may be perfectly valid: reported by crash_violations()
            self.startup_crash = exc
            self.rejected = 'startup-crash'
            return self
        if sim.crashed is not None or not sim.running:
            exc = sim.crashed or sim.shutdown_reason
            if isinstance(exc, (CylcError, ParsecError)) and sim.iteration == 0:
                self.rejected = type(exc).__name__
                self.ctx.col.rejected += 1
        return self

    async def __aexit__(self, *a):
        await self.sim.force_stop()
        self.sim.cleanup()
        return False

    async def run_schedule(self, schedule=None):
        for step in (self.schedule if schedule is None else schedule):
            if not self.sim.running:
                break
            await self.drv.step(*step)

    async def drain(self, **kw):
        for k in ('delays', 'ret_delays', 'poll_every'):
            if k not in kw and self.case.get(k):
                kw[k] = self.case[k]
        self.shut, self.quiescent = await self.drv.drain(**kw)
        return self.shut, self.quiescent

    @property
    def inconclusive(self):
        return not self.shut and not self.quiescent

    def crash_violations(self, prop: str):
        """Scheduler aborted with anything but a deliberate stop."""
        from cylc.flow.scheduler import SchedulerStop
        from vf.core import Violation, exc_sig
        sim = self.sim
        if self.startup_crash is not None:
            return [Violation(
                f'{prop}:startup-crash:' + exc_sig(self.startup_crash),
                f'scheduler start-up died with {self.startup_crash!r}')]
        reason = sim.shutdown_reason
        if sim.crashed is not None or (
                reason is not None and not isinstance(reason, SchedulerStop)):
            exc = sim.crashed or reason
            return [Violation(
                f'{prop}:scheduler-crash:' + exc_sig(exc),
                f'scheduler aborted with {exc!r}')]
        return []
