"""Run one generated case on engine S: schedule interpretation + fair drain."""
from __future__ import annotations

import asyncio
import itertools
import os
from typing import Any, Callable, Dict, List, Optional, Set, Tuple

from hypothesis import strategies as st

from vf.gen.wfspec import render_flow, render_point
from vf.sim.engine import Sim
from vf.sim.model import Model

_wid = itertools.count()

FAIL_MSG = 'failed/ERR'


def point_maps(spec) -> Tuple[Dict[str, int], Dict[int, str]]:
    to_int, to_str = {}, {}
    for n in range(spec['icp'] - 12, spec['fcp'] + 13):
        s = render_point(spec, n)
        to_int[s] = n
        to_str[n] = s
    return to_int, to_str


def outcome_for(outcomes: dict, t: str, p: int, sn: int) -> dict:
    lst = outcomes.get(f'{p}/{t}')
    if not lst:
        return {'final': None}
    return lst[sn - 1] if sn - 1 < len(lst) else lst[-1]


def default_final(spec: dict, t: str) -> str:
    return 'failed' if spec['opt'].get(t, {}).get('fail_required') else 'succeeded'


def job_messages(spec: dict, t: str, oc: dict) -> Tuple[List[str], bool]:
    """(messages the job emits in order, submit ok?)"""
    final = oc.get('final') or default_final(spec, t)
    if final == 'submit-fail':
        return [], False
    msgs = ['started']
    skip = set(oc.get('skip') or ())
    for nm, msg in spec.get('custom', {}).get(t, {}).items():
        if nm not in skip:
            msgs.append(msg)
    msgs.append('succeeded' if final == 'succeeded' else FAIL_MSG)
    return msgs, True


def job_outputs(spec: dict, t: str, oc: dict) -> Set[str]:
    """Outputs (trigger names) one job completes when fully reported."""
    final = oc.get('final') or default_final(spec, t)
    if final == 'submit-fail':
        return {'submit-failed'}
    outs = {'submitted', 'started'}
    skip = set(oc.get('skip') or ())
    for nm in spec.get('custom', {}).get(t, {}):
        if nm not in skip:
            outs.add(nm)
    outs.add('succeeded' if final == 'succeeded' else 'failed')
    return outs


# ---------------------------------------------------------------------------
# strategies

@st.composite
def outcome_maps(draw, spec, p_fail=0.15, p_skip=0.1, p_subfail=0.05,
                 max_subs=1):
    """Outcome assignment: exceptions to 'every job does the default'."""
    model = Model(spec)
    out = {}
    insts = model.instances()
    n_exc = draw(st.integers(0, min(4, len(insts))))
    if not insts:
        return out
    for _ in range(n_exc):
        t, p = draw(st.sampled_from(insts))
        lst = []
        for _k in range(draw(st.integers(1, max_subs))):
            kind = draw(st.integers(0, 9))
            o = spec['opt'].get(t, {})
            if kind <= 4:
                oc = {'final': 'failed' if not o.get('fail_required')
                      else 'succeeded'}
            elif kind <= 6 and spec.get('custom', {}).get(t):
                names = list(spec['custom'][t])
                oc = {'final': None,
                      'skip': [draw(st.sampled_from(names))]}
            elif kind == 7:
                oc = {'final': 'submit-fail'}
            else:
                oc = {'final': None}
            lst.append(oc)
        out[f'{p}/{t}'] = lst
    return out


def schedules(max_len=40, ops=('loop', 'ret', 'adv', 'del')):
    op = st.sampled_from(list(ops))
    return st.lists(st.tuples(op, st.integers(0, 7)).map(list),
                    min_size=0, max_size=max_len)


# ---------------------------------------------------------------------------

class RunResult:
    def __init__(self):
        self.sim: Optional[Sim] = None
        self.rejected: Optional[str] = None     # validation rejected the flow
        self.crash: Optional[BaseException] = None
        self.shutdown: Optional[str] = None     # reason string
        self.quiescent = False
        self.inconclusive = False
        self.launches: List[Tuple[str, int, int]] = []   # (task, point, submit_num)
        self.trace: List[dict] = []
        self.stalled = False
        self.flow_text = ''


class Driver:
    """Interprets schedule steps against a Sim."""

    def __init__(self, spec, outcomes, ctx, run_opts=None, flow_text=None):
        self.spec = spec
        self.outcomes = outcomes or {}
        self.ctx = ctx
        self.to_int, self.to_str = point_maps(spec)
        self.flow_text = flow_text or render_flow(spec)
        wid = f'w{os.getpid()}-{next(_wid)}'
        # outcomes keyed by rendered cycle strings for the engine
        self.sim = Sim(ctx.scratch, self.flow_text, wid,
                       run_opts=run_opts)
        self.sim._script_for = self._script_for

    def _script_for(self, cycle, name, sn):
        p = self.to_int.get(cycle)
        oc = outcome_for(self.outcomes, name, p, sn)
        return job_messages(self.spec, name, oc)

    async def start(self, **opts):
        return await self.sim.start(**opts)

    async def step(self, op, n) -> None:
        sim = self.sim
        if op == 'loop':
            await sim.loop()
        elif op == 'ret':
            pend = sim.pending_cmds()
            if pend:
                sim.mark_returned(pend[n % len(pend)])
        elif op == 'adv':
            jobs = sorted(sim.live_jobs(), key=lambda j: j.key)
            if jobs:
                sim.advance(jobs[n % len(jobs)])
        elif op == 'del':
            if sim.inflight:
                sim.deliver(sim.inflight[n % len(sim.inflight)])
        elif op == 'dup':
            if sim.inflight:
                sim.deliver(sim.inflight[n % len(sim.inflight)], keep=True)
        elif op == 'drop':
            if sim.inflight:
                sim.drop(sim.inflight[n % len(sim.inflight)])
        elif op == 'tick':
            sim.clock.advance([1, 10, 60, 600, 3600, 86400, 5, 30][n % 8])
        elif op == 'poll':
            await self.cmd_poll(n)
        else:
            raise ValueError(op)

    async def cmd_poll(self, n):
        from cylc.flow import commands
        sim = self.sim
        if not sim.running:
            return
        tasks = [t for t in sim.schd.pool.get_tasks()
                 if t.state('submitted', 'running')]
        if not tasks:
            return
        tasks.sort(key=lambda t: t.identity)
        t = tasks[n % len(tasks)]
        await commands.run_cmd(commands.poll_tasks(sim.schd, [t.identity]))
        sim.ev('cmd-poll', task=t.identity)

    async def drain(self, cap=2000, quiet_needed=25) -> Tuple[bool, bool]:
        """Deterministic fair schedule until shutdown or quiescence.

        Returns (shut_down, quiescent)."""
        sim = self.sim
        quiet = 0
        for _ in range(cap):
            if not sim.running:
                return True, False
            progressed = False
            for it in sim.pending_cmds():
                sim.mark_returned(it)
                progressed = True
            for job in sorted(sim.live_jobs(), key=lambda j: j.key):
                sim.advance(job)
                progressed = True
            for m in list(sim.inflight):
                sim.deliver(m)
                progressed = True
            n0 = len(sim.trace)
            alive = await sim.loop()
            if not alive:
                return True, False
            # did the iteration do anything observable?
            evs = [e for e in sim.trace[n0:] if e['k'] != 'iter-end']
            if progressed or evs or sim.pending_cmds() or sim.inflight:
                quiet = 0
            else:
                quiet += 1
                # let retry timers etc. expire
                sim.clock.advance(1.0)
                if quiet >= quiet_needed:
                    return False, True
        return False, False

    def launches(self) -> List[Tuple[str, int, int]]:
        return [(name, self.to_int.get(cycle, cycle), sn)
                for (cycle, name, sn) in self.sim.journal]


def run_async(coro):
    """Run a coroutine on a fresh event loop; make sure nothing survives."""
    loop = asyncio.new_event_loop()
    try:
        asyncio.set_event_loop(loop)
        return loop.run_until_complete(coro)
    finally:
        try:
            pending = asyncio.all_tasks(loop)
            for t in pending:
                t.cancel()
            if pending:
                loop.run_until_complete(
                    asyncio.gather(*pending, return_exceptions=True))
        finally:
            asyncio.set_event_loop(None)
            loop.close()
