"""Helpers shared by the C19 / C45 modules (stop-restart histories on engine S).

Nothing here touches the shared engine files: extra schedule steps are
interpreted around `Driver.step`, observations are read from `sim.trace`,
from the scheduler objects at the `shutdown` / `restarted` instants and from
the run database through a fresh read-only connection.
"""
from __future__ import annotations

import json
import sqlite3
from typing import Dict, List, Optional, Set, Tuple


# ---------------------------------------------------------------------------
# schedule interpretation

def return_pending_polls(sim) -> int:
    """Mark every pending jobs-poll command returned.

    Used before a message delivery step: the poll callback then runs in
    `proc_pool.process()` of the next main-loop iteration, i.e. *before* the
    delivered message is processed, so a truthful poll result is never
    processed after a later message of the same job (that history - "late
    poll result believed" - is a recorded known finding of C09/C10 and is
    kept out of the C19/C45 schedule domain)."""
    n = 0
    for it in sim.pending_cmds():
        if it.get('kind') == 'jobs-poll':
            sim.mark_returned(it)
            n += 1
    return n


async def cmd_broadcast(sc, n: int) -> None:
    """Schedule step `broadcast`: one single-key broadcast (point '*' or a
    specific cycle point; namespace root or a task).  Single-key settings
    only: multi-key setting dicts are the subject of a C22 known finding."""
    sim, drv = sc.sim, sc.drv
    if not sim.running:
        return
    spec = sc.spec
    tasks = spec['tasks']
    pts = list(range(spec['icp'], spec['fcp'] + 1))
    point = '*' if n % 2 == 0 else drv.to_str[pts[(n // 2) % len(pts)]]
    ns = 'root' if (n // 2) % 3 == 0 else tasks[(n // 3) % len(tasks)]
    form = n % 3
    if form == 0:
        setting = {'environment': {'VF_A': str(n)}}
    elif form == 1:
        setting = {'environment': {'VF_B': 'x y %d' % n}}
    else:
        setting = {'execution time limit': 'PT%dM' % (1 + n % 5)}
    mgr = sim.schd.broadcast_mgr
    _mod, bad = mgr.put_broadcast(
        point_strings=[point], namespaces=[ns], settings=[setting])
    sim.ev('cmd', cmd='broadcast', err=(repr(bad) if bad else None),
           before=[], after=[], point=point, namespace=ns)


async def cmd_clear_broadcast(sc, n: int) -> None:
    sim = sc.sim
    if not sim.running:
        return
    mgr = sim.schd.broadcast_mgr
    if n % 2:
        mgr.clear_broadcast()
    else:
        mgr.clear_broadcast(namespaces=['root'])
    sim.ev('cmd', cmd='clear-broadcast', err=None, before=[], after=[])


def faithful_poll_output(sim) -> None:
    """The real `cylc jobs-poll` (JobRunnerManager.jobs_poll) writes a job's
    [TASK JOB MESSAGE] lines *before* its [TASK JOB SUMMARY] line, and the
    scheduler processes the lines in order; Sim._poll_lines puts the summary
    first, so a polled final status completes and removes a task before
    its recovered custom-output messages are seen.  Re-order here."""
    orig = sim._poll_lines

    def _poll_lines(rel, job, ts):
        lines = orig(rel, job, ts)
        msgs = [ln for ln in lines if ln.startswith('[TASK JOB MESSAGE]')]
        rest = [ln for ln in lines if not ln.startswith('[TASK JOB MESSAGE]')]
        return msgs + rest

    sim._poll_lines = _poll_lines


def polls_outstanding(sim) -> bool:
    """A jobs-poll command is queued or running on the cluster."""
    cl = sim.cluster
    if cl is None:
        return False
    for q in cl.queuings:
        if getattr(q[0], 'cmd_key', None) == 'jobs-poll':
            return True
    return any(it.get('kind') == 'jobs-poll' for it in cl.pending)


async def settle_polls(sc, cap=6) -> None:
    """Let the restart poll report before anything else happens: loop (no
    job step, no delivery) until no jobs-poll command is outstanding."""
    sim = sc.sim
    for _ in range(cap):
        if not sim.running or not polls_outstanding(sim):
            return
        return_pending_polls(sim)
        await sc.drv.loop()


def instrument_merges(sim) -> None:
    """Trace event `merge` for every TaskPool.merge_flows that changes a
    task's flow numbers (call again after every restart)."""
    pool = sim.schd.pool
    orig = pool.merge_flows

    def merge_flows(itask, flow_nums):
        before = sorted(itask.flow_nums)
        r = orig(itask, flow_nums)
        after = sorted(itask.flow_nums)
        if after != before:
            sim.ev('merge', cycle=str(itask.point), name=itask.tdef.name,
                   before=before, after=after)
        return r

    pool.merge_flows = merge_flows


async def run_steps(sc, steps, settle_after_restart=False) -> None:
    """`SCase.run_schedule` plus the steps `round`, `broadcast`,
    `clear-broadcast`, and with poll results never overtaken by message
    deliveries.  settle_after_restart: after a `restart` step the restart
    poll reports before any job progresses or any message is delivered."""
    sim = sc.sim
    for step in steps:
        if not sim.running:
            break
        op = step[0]
        if op == 'restart':
            await sc.drv.step(*step)
            if settle_after_restart:
                await settle_polls(sc)
            continue
        if op == 'round':
            # one round of the fair schedule: everything pending returns,
            # every job takes a step, every message is delivered, one loop
            for it in sim.pending_cmds():
                sim.mark_returned(it)
            for job in sorted(sim.live_jobs(), key=lambda j: j.key):
                sim.advance(job)
            for m in list(sim.inflight):
                sim.deliver(m)
            await sc.drv.loop()
        elif op == 'broadcast':
            await cmd_broadcast(sc, step[1])
        elif op == 'clear-broadcast':
            await cmd_clear_broadcast(sc, step[1])
        else:
            if op in ('del', 'delr', 'dup'):
                return_pending_polls(sim)
            await sc.drv.step(*step)


# ---------------------------------------------------------------------------
# observation

def prune(d) -> dict:
    """Plain copy of a broadcast dict with str leaves and no empty branch."""
    out = {}
    for k, v in (d or {}).items():
        if isinstance(v, dict):
            sub = prune(v)
            if sub:
                out[str(k)] = sub
        elif v is not None:
            out[str(k)] = str(v)
    return out


def scheduler_fields(schd) -> dict:
    """Workflow-level state named by C19, read from the scheduler objects."""
    pool = schd.pool
    return {
        'hold_point': None if pool.hold_point is None
        else str(pool.hold_point),
        'stop_point': None if pool.stop_point is None
        else str(pool.stop_point),
        'stop_task': pool.stop_task_id,
        'broadcasts': prune(schd.broadcast_mgr.broadcasts),
        'flow_counter': int(pool.flow_mgr.counter),
    }


def norm_task(t: dict) -> dict:
    """Pool-snapshot entry reduced to what C19 names, with the documented
    normalisation: preparing == waiting, to be prepared again under the
    same submit number (i.e. the number it will get is unchanged)."""
    status, sn = t['status'], t['submit_num']
    if status == 'preparing':
        status, sn = 'waiting', sn - 1
    return {
        'status': status,
        'submit_num': sn,
        'flows': sorted(t['flows']),
        'held': bool(t['held']),
        'outputs': sorted(t['outputs']),
        'sat': {k: bool(v) for k, v in t['sat'].items()},
        # user-declared xtriggers; retry delays are implemented as internal
        # `_cylc_retry_*` / `_cylc_submit_retry_*` wall_clock xtriggers
        'xtriggers': {k: bool(v) for k, v in t.get('xtriggers', {}).items()
                      if not k.startswith('_cylc')},
        # compared under a signature of their own (see c19.py)
        # (only the unsatisfied ones: a satisfied retry xtrigger that is
        # not re-created makes no difference)
        'retry_xtriggers': sorted(
            k for k, v in t.get('xtriggers', {}).items()
            if k.startswith('_cylc') and not v),
    }


def norm_pool(snap: List[dict]) -> Dict[str, dict]:
    return {f'{t["cycle"]}/{t["name"]}': norm_task(t) for t in snap}


def db_task_outputs(path) -> Dict[Tuple[str, str], Dict[str, Set[str]]]:
    """{(cycle, name): {flow_nums json: set(output labels)}} from the
    task_outputs table (fresh read-only connection)."""
    con = sqlite3.connect(f'file:{path}?mode=ro', uri=True, timeout=5)
    try:
        rows = con.execute(
            'SELECT cycle, name, flow_nums, outputs FROM task_outputs'
        ).fetchall()
    finally:
        con.close()
    out: Dict[Tuple[str, str], Dict[str, Set[str]]] = {}
    for cycle, name, flows, outs in rows:
        try:
            d = json.loads(outs) if outs else {}
        except ValueError:
            d = {}
        labels = set(d.keys()) if isinstance(d, dict) else set(d)
        out.setdefault((cycle, name), {})[flows] = labels
    return out


def db_abs_outputs(path) -> Set[Tuple[str, str, str]]:
    con = sqlite3.connect(f'file:{path}?mode=ro', uri=True, timeout=5)
    try:
        rows = con.execute(
            'SELECT cycle, name, output FROM absolute_outputs').fetchall()
    finally:
        con.close()
    return {tuple(r) for r in rows}


def final_outputs(sim) -> Dict[str, List[str]]:
    """'cycle/name' -> sorted completed output labels over all flows, from
    the run database at the end of the run."""
    path = sim.schd.workflow_db_mgr.pri_path
    res: Dict[str, Set[str]] = {}
    for (cycle, name), per_flow in db_task_outputs(path).items():
        acc = res.setdefault(f'{cycle}/{name}', set())
        for labels in per_flow.values():
            acc.update(labels)
    return {k: sorted(v) for k, v in res.items()}


def launched_instances(sim) -> Set[str]:
    return {f'{c}/{n}' for (c, n, _sn) in sim.journal}


# ---------------------------------------------------------------------------
# xtriggers: rendered by the module (the shared AST has no xtrigger atoms)

def add_xtrigger_lines(flow_text: str, xt: Optional[dict]) -> str:
    """Insert `@label => task` into graph section number xt['section'].

    xt = {'task': name, 'section': index, 'label': 'xa',
          'per_point': bool, 'after': {point str or '*': k}}
    The xtrigger is `echo(succeed=True[, p=%(point)s]):PT1S`; what it
    *returns* is decided by the harness (Sim.xtrig_results), not by echo."""
    if not xt:
        return flow_text
    lines = flow_text.split('\n')
    out = []
    sec = -1
    in_graph = False
    for ln in lines:
        out.append(ln)
        s = ln.strip()
        if s == '[[graph]]':
            in_graph = True
            # declare the xtrigger just before the graph section
            sig = ('echo(succeed=True, p=%(point)s)' if xt['per_point']
                   else 'echo(succeed=True)')
            out[-1:] = ['    [[xtriggers]]',
                        f'        {xt["label"]} = {sig}:PT1S', ln]
        elif in_graph and s.endswith('= """'):
            sec += 1
            if sec == xt['section']:
                out.append(f'            @{xt["label"]} => {xt["task"]}')
        elif s == '[runtime]':
            in_graph = False
    return '\n'.join(out)


def install_xtrigger_results(sim, xt: Optional[dict]) -> None:
    """Each xtrigger signature succeeds from its k-th call on (k from the
    case, per signature order of first appearance); the counter lives in the
    harness and survives restarts."""
    if not xt:
        return
    counts: Dict[str, int] = {}
    order: List[str] = []
    ks = xt.get('after') or [0]

    def result(sig, ctx):
        if sig not in counts:
            counts[sig] = 0
            order.append(sig)
        counts[sig] += 1
        k = ks[order.index(sig) % len(ks)]
        if counts[sig] > k:
            return [True, {'ok': '1'}]
        return [False, {}]

    sim._xtrig_result = result
    # Sim._cmd_kind returns the string cmd_key ("xtrigger-func") before it
    # tests for SubFuncContext, so the engine answers xtrigger calls with an
    # empty output (never satisfied); classify them here.
    orig_kind = sim._cmd_kind

    def _cmd_kind(ctx):
        from cylc.flow.subprocctx import SubFuncContext
        if isinstance(ctx, SubFuncContext):
            return 'xtrigger'
        return orig_kind(ctx)

    sim._cmd_kind = _cmd_kind
