"""Engine S: the real cylc Scheduler single-stepped on a virtual cluster.

The harness owns every source of nondeterminism: job outcomes, the moment a
process-pool command "returns", message delivery order / duplication / loss
and the clock.  Everything on the scheduler side of the seam is real code.
"""
from __future__ import annotations

import asyncio
import json
import logging
import os
import shutil
import sys
from collections import deque
from contextlib import suppress
from pathlib import Path
from typing import Any, Callable, Dict, List, Optional, Tuple

_PATCHED = False
VCLOCK = None


class VClock:
    """Monotone virtual clock; every read advances it by 1 microsecond."""

    def __init__(self, t0: float = 1_000_000_000.0):
        self.now = t0

    def time(self) -> float:
        self.now += 1e-6
        return self.now

    def advance(self, dt: float) -> None:
        self.now += dt

    def set(self, t: float) -> None:
        self.now = t


TIME_MODULES = [
    'cylc.flow.scheduler', 'cylc.flow.task_proxy',
    'cylc.flow.task_action_timer', 'cylc.flow.task_events_mgr',
    'cylc.flow.task_job_mgr', 'cylc.flow.xtrigger_mgr',
    'cylc.flow.xtriggers.wall_clock', 'cylc.flow.data_store_mgr',
    'cylc.flow.run_modes.simulation', 'cylc.flow.main_loop',
    'cylc.flow.commands', 'cylc.flow.task_remote_mgr',
    'cylc.flow.subprocpool', 'cylc.flow.task_pool',
]


class StubServer:
    """Replaces WorkflowRuntimeServer: no threads, no sockets."""

    def __init__(self, schd):
        from queue import Queue
        self.schd = schd
        self.port = 43001
        self.pub_port = 43002
        self.publish_queue = _RecordingQueue()
        self.thread = None
        self.stopped = False
        self.curve_auth = None
        self.client_pub_key_dir = None

    def start(self, barrier):
        barrier.wait()

    async def stop(self, reason):
        self.stopped = True

    def configure_curve(self, *a, **k):
        pass


class _RecordingQueue:
    def __init__(self):
        self.items = []

    def put(self, item):
        self.items.append(item)

    def qsize(self):
        return 0


def install_patches():
    """Process-wide monkeypatches (idempotent)."""
    global _PATCHED, VCLOCK
    if _PATCHED:
        return VCLOCK
    import importlib
    VCLOCK = VClock()
    for name in TIME_MODULES:
        mod = importlib.import_module(name)
        if hasattr(mod, 'time') and callable(getattr(mod, 'time')):
            mod.time = VCLOCK.time
        if hasattr(mod, 'sleep'):
            mod.sleep = lambda *_a, **_k: None
    import cylc.flow.timer as timer_mod
    timer_mod.now = VCLOCK.time
    import cylc.flow.scheduler as smod
    smod.WorkflowRuntimeServer = StubServer
    smod.SubProcPool = VCluster
    smod.Scheduler.INTERVAL_MAIN_LOOP = 0.0
    smod.Scheduler.INTERVAL_MAIN_LOOP_QUICK = 0.0
    smod.Scheduler.INTERVAL_STOP_PROCESS_POOL_EMPTY = 0.0
    # daemonize / signal handling are not used (we call start/run_scheduler)
    import signal as _signal
    smod.signal.signal = lambda *_a, **_k: None
    # job-file syntax check (`bash -n` per job) costs ~0.1 s of fork time
    # per job here; the job file itself is still written by the real code
    import cylc.flow.job_file as jf

    class _NoBash:
        def __init__(self, *a, **k):
            pass

        def __enter__(self):
            return self

        def __exit__(self, *a):
            return False

        def wait(self):
            return 0

        def communicate(self):
            return ('', '')

    jf.Popen = _NoBash
    _patch_task_state()
    # quiet logging
    logging.getLogger('cylc').setLevel(logging.CRITICAL + 1)
    _PATCHED = True
    return VCLOCK


CURRENT_SIM: List[Optional['Sim']] = [None]

_CALLSITE_FUNCS = (
    '_process_message_failed', '_process_message_submit_failed',
    '_retry_task', '_process_message_started', '_process_message_succeeded',
    '_process_message_submitted', '_process_message_expired',
    'process_message', 'prep_submit_task_jobs', 'submit_nonlive_task_jobs',
    'load_db_task_pool_for_restart', '_load_db_task_proxy',
    'force_trigger_tasks', '_force_trigger_tasks', 'set_prereqs_and_outputs',
    '_set_outputs_itask', 'remove_tasks', 'kill_tasks', 'kill_task_jobs',
    '_kill_task_job_callback', 'kill_prep_task', 'hold_active_task',
    'release_held_active_task', 'release_runahead_tasks',
    'release_queued_tasks', 'queue_task', 'unqueue_task',
    '_reload_taskdefs', 'clock_expire_tasks', 'spawn_task',
    '_poll_task_job_callback', '_submit_task_job_callback',
    'process_queued_task_messages', 'reload_workflow',
    '_prep_submit_task_job_error', '_platform_submit_failure',
    'queue_or_trigger', 'copy_to_reload_successor',
)


def _patch_task_state():
    """Record every task status / flag change with its call site."""
    import cylc.flow.task_proxy as tp
    orig = tp.TaskProxy.state_reset

    def state_reset(self, status=None, is_held=None, is_queued=None,
                    is_runahead=None, silent=False, forced=False):
        st = self.state
        before = (st.status, st.is_held, st.is_queued, st.is_runahead)
        r = orig(self, status, is_held, is_queued, is_runahead, silent,
                 forced)
        sim = CURRENT_SIM[0]
        if r and sim is not None and not self.transient:
            after = (st.status, st.is_held, st.is_queued, st.is_runahead)
            site = []
            f = sys._getframe(1)
            depth = 0
            while f is not None and depth < 14:
                nm = f.f_code.co_name
                if nm in _CALLSITE_FUNCS:
                    site.append(nm)
                f = f.f_back
                depth += 1
            timers = {}
            for k, t in (self.try_timers or {}).items():
                timers[str(getattr(k, 'value', k))] = [
                    t.num, len(t.delays or ())]
            sim.ev('state', cycle=str(self.point), name=self.tdef.name,
                   before=list(before), after=list(after), site=site,
                   forced=bool(forced), submit_num=self.submit_num,
                   manual=bool(self.is_manual_submit), timers=timers,
                   flows=sorted(self.flow_nums),
                   stale_poll=sim.in_stale_poll(
                       str(self.point), self.tdef.name, self.submit_num))
        return r

    tp.TaskProxy.state_reset = state_reset


# ---------------------------------------------------------------------------
# Virtual cluster

def _make_vcluster_class():
    from cylc.flow.subprocpool import SubProcPool

    class _VCluster(SubProcPool):
        """SubProcPool surface backed by the harness."""

        current_sim: Optional['Sim'] = None

        def __init__(self):
            super().__init__()
            self.sim = _VCluster.current_sim
            self.pending: list = []     # launched, not yet returned
            self.n_put = 0
            self.spin = 0
            if self.sim is not None:
                self.sim.cluster_attach(self)

        # real put_command is inherited (stopping / closed semantics)
        def put_command(self, ctx, *a, **k):
            self.n_put += 1
            if self.sim is not None:
                self.sim.on_put(ctx)
            return super().put_command(ctx, *a, **k)

        def is_not_done(self):
            return bool(self.queuings or self.pending)

        def process(self):
            sim = self.sim
            # 1. run callbacks of commands the schedule marked returned
            yielding = sim.harness_yields() if sim else False
            if yielding and not any(it['returned'] for it in self.pending):
                # scheduler is spinning inside one main-loop call waiting for
                # the pool to drain: return the oldest pending command
                if self.pending:
                    self.pending[0]['returned'] = True
                    self.spin = 0
                else:
                    self.spin += 1
                    if self.spin > 10000 and not self.queuings:
                        raise RuntimeError(
                            'harness: scheduler spinning on empty pool')
            done = [it for it in self.pending if it['returned']]
            self.pending = [it for it in self.pending if not it['returned']]
            for it in done:
                sim.on_return(it)
                sim.returning = it
                try:
                    self._run_command_exit(
                        it['ctx'], bad_hosts=it['bad_hosts'],
                        callback=it['callback'],
                        callback_args=it['callback_args'],
                        callback_255=it['callback_255'],
                        callback_255_args=it['callback_255_args'])
                finally:
                    sim.returning = None
            # 2. launch queued commands
            stopping = self._is_stopping()
            while self.queuings:
                (ctx, bad_hosts, callback, callback_args,
                 callback_255, callback_255_args) = self.queuings.popleft()
                if stopping and ctx.cmd_key == self.JOBS_SUBMIT:
                    ctx.err = self.ERR_WORKFLOW_STOPPING
                    ctx.ret_code = self.RET_CODE_WORKFLOW_STOPPING
                    self._run_command_exit(ctx)
                    continue
                it = {
                    'ctx': ctx, 'bad_hosts': bad_hosts, 'callback': callback,
                    'callback_args': callback_args,
                    'callback_255': callback_255,
                    'callback_255_args': callback_255_args,
                    'returned': False, 'id': sim.next_cmd_id(),
                }
                auto = sim.on_launch(it)
                self.pending.append(it)
                if auto:
                    it['returned'] = True

        def terminate(self):
            """Drain queue (no callbacks, as the real pool) and "kill"
            running commands (their callbacks run with what they have)."""
            self.close()
            while self.queuings:
                ctx = self.queuings.popleft()[0]
                ctx.err = self.ERR_WORKFLOW_STOPPING
                ctx.ret_code = self.RET_CODE_WORKFLOW_STOPPING
                self._run_command_exit(ctx)
            for it in self.pending:
                it['returned'] = True
                it['killed'] = True
            self.process()

    return _VCluster


class _LazyVCluster:
    """Callable placeholder so the class is built after cylc is importable."""
    _cls = None

    def __call__(self):
        if _LazyVCluster._cls is None:
            _LazyVCluster._cls = _make_vcluster_class()
        return _LazyVCluster._cls()

    @property
    def cls(self):
        if _LazyVCluster._cls is None:
            _LazyVCluster._cls = _make_vcluster_class()
        return _LazyVCluster._cls


VCluster = _LazyVCluster()


# ---------------------------------------------------------------------------
# Job model

class Job:
    """One submitted job (cycle, task, submit_num) on the virtual cluster."""

    def __init__(self, cycle: str, name: str, submit_num: int,
                 script: List[str], submit_ok: bool = True):
        self.cycle = cycle
        self.name = name
        self.submit_num = submit_num
        self.script = list(script)   # messages the job will emit, in order
        self.pos = 0
        self.submit_ok = submit_ok
        self.killed = False
        # submitted fine, then disappeared from the job runner without ever
        # starting (only a poll can tell: "never ran, no longer in runner")
        self.vanished = False
        self.time_submit = '2000-01-01T00:00:00Z'
        self.time_run = None
        self.time_exit = None
        self.emitted: List[str] = []

    @property
    def key(self):
        return (self.cycle, self.name, self.submit_num)

    @property
    def rel_id(self):
        return f'{self.cycle}/{self.name}/{self.submit_num:02d}'

    @property
    def started(self):
        return 'started' in self.emitted

    @property
    def final(self) -> Optional[str]:
        for m in self.emitted:
            if m == 'succeeded' or m.startswith('failed'):
                return 'succeeded' if m == 'succeeded' else 'failed'
        return None

    @property
    def live(self):
        return (self.submit_ok and not self.killed and not self.vanished
                and self.final is None)

    def has_next(self):
        return self.live and self.pos < len(self.script)

    def next_message(self) -> Optional[str]:
        if not self.has_next():
            return None
        m = self.script[self.pos]
        self.pos += 1
        self.emitted.append(m)
        return m


# ---------------------------------------------------------------------------

class SchedulerCrashed(Exception):
    def __init__(self, exc):
        super().__init__(repr(exc))
        self.exc = exc


class Sim:
    """One workflow run dir + successive scheduler incarnations on it."""

    def __init__(self, scratch: str, flow_text: str, wid: str = 'w',
                 outcomes: Optional[dict] = None,
                 default_script: Optional[Callable] = None,
                 run_opts: Optional[dict] = None,
                 global_cfg: str = ''):
        self.clock = install_patches()
        self.scratch = scratch
        self.wid = wid
        self.flow_text = flow_text
        self.outcomes = outcomes or {}
        self.default_script = default_script or (
            lambda cycle, name, submit_num: ['started', 'succeeded'])
        self.run_opts = dict(run_opts or {})
        self.home = os.environ['HOME']
        self.run_dir = Path(self.home) / 'cylc-run' / wid
        if self.run_dir.exists():
            shutil.rmtree(self.run_dir)
        self.run_dir.mkdir(parents=True)
        (self.run_dir / 'flow.cylc').write_text(flow_text)
        self.global_cfg = global_cfg
        conf = Path(os.environ['CYLC_CONF_PATH'])
        conf.mkdir(parents=True, exist_ok=True)
        (conf / 'global.cylc').write_text(global_cfg)
        # state owned by the harness (survives scheduler restarts)
        self.jobs: Dict[Tuple[str, str, int], Job] = {}
        self.journal: List[Tuple[str, str, int]] = []   # jobs-submit launches
        self.inflight: List[dict] = []      # messages emitted, undelivered
        self.delivered_log: List[dict] = []  # every message ever delivered
        self.trace: List[dict] = []         # monitor events
        self.cmd_counter = 0
        self.iteration = 0
        self.incarnation = 0
        self.schd = None
        self.task = None
        self.cluster = None
        self.stop_reason = None
        self.crashed: Optional[BaseException] = None
        self._permit = None
        self._done = None
        self._in_loop = False
        self.hooks: List[Callable[[str, dict], None]] = []
        self.xtrig_results: Dict[str, Any] = {}
        self.poll_cmds = 0
        self.returning: Optional[dict] = None   # command whose callback runs
        self.launch_listeners: List[Callable] = []
        self.completed_removed: set = set()
        self.shutdown_reason: Optional[BaseException] = None

    # -- trace -------------------------------------------------------------
    def ev(self, kind: str, **data):
        data['k'] = kind
        data['it'] = self.iteration
        data['inc'] = self.incarnation
        self.trace.append(data)
        for h in self.hooks:
            h(kind, data)

    # -- cluster callbacks ---------------------------------------------------
    def cluster_attach(self, cluster):
        self.cluster = cluster

    def next_cmd_id(self):
        self.cmd_counter += 1
        return self.cmd_counter

    def harness_yields(self) -> bool:
        """True when the scheduler spins inside one main-loop call waiting
        for the pool (reload, shutdown) or outside the gated loop."""
        schd = self.schd
        if schd is None:
            return True
        if getattr(schd, 'reload_pending', False):
            return True
        if self.cluster is not None and self.cluster.closed:
            return True
        return not self._in_loop

    def on_put(self, ctx):
        kind = self._cmd_kind(ctx)
        if kind in ('jobs-poll', 'jobs-kill'):
            dirs = [a for a in ctx.cmd if a.count('/') == 2 and a[0] != '/']
            self.ev('put', ckind=kind, jobs=dirs)

    def _cmd_kind(self, ctx) -> str:
        key = ctx.cmd_key
        from cylc.flow.subprocctx import SubFuncContext
        if isinstance(ctx, SubFuncContext):
            return 'xtrigger'
        if isinstance(key, str):
            return key
        return type(key).__name__ if not isinstance(key, tuple) else 'event-handler'

    def on_launch(self, it) -> bool:
        """Command starts executing. Compute its output now.

        Return True if it should return automatically (at the next
        process()), False if the schedule decides.
        """
        ctx = it['ctx']
        kind = self._cmd_kind(ctx)
        it['kind'] = kind
        ts = '2000-01-01T00:00:00Z'
        if kind == 'jobs-submit':
            out = []
            it['jobs'] = []
            for rel in ctx.cmd_kwargs.get('job_log_dirs', []):
                cycle, name, nn = rel.split('/')
                sn = int(nn)
                key = (cycle, name, sn)
                it['jobs'].append(key)
                self.journal.append(key)
                prereqs = self._prereq_snapshot(cycle, name)
                script, ok = self._script_for(cycle, name, sn)
                dup = key in self.jobs
                job = Job(cycle, name, sn, script, bool(ok))
                if ok == 'vanish':
                    job.vanished = True
                if not dup:
                    self.jobs[key] = job
                self.ev('launch', cycle=cycle, name=name, submit_num=sn,
                        dup=dup, done=self.completed_now(), **prereqs)
                for fn in self.launch_listeners:
                    fn(key)
                if ok:
                    out.append(f'[TASK JOB SUMMARY]{ts}|{rel}|0|{1000 + len(self.journal)}')
                else:
                    out.append(f'[TASK JOB SUMMARY]{ts}|{rel}|1|None')
            ctx.out = '\n'.join(out) + '\n'
            ctx.ret_code = 0
            return False
        if kind == 'jobs-poll':
            self.poll_cmds += 1
            out = []
            dirs = [a for a in ctx.cmd if a.count('/') == 2 and a[0] != '/']
            polled = []
            snap = {}
            for rel in dirs:
                cycle, name, nn = rel.split('/')
                job = self.jobs.get((cycle, name, int(nn)))
                polled.append(rel)
                # Harness constraint (same schedule domain as deliver()):
                # the end of a job is not reported - by message or by poll -
                # before the jobs-submit command that launched it has
                # returned; that command is returned first (it was launched
                # earlier, so its callback runs before this poll's).
                if job is not None and (
                        job.final is not None or job.killed
                        or job.vanished or not job.submit_ok):
                    for it2 in self.pending_cmds():
                        if it2.get('kind') == 'jobs-submit' and \
                                job.key in it2.get('jobs', ()):
                            it2['returned'] = True
                            self.ev('submit-return-forced', job=rel)
                out.extend(self._poll_lines(rel, job, ts))
                # what the job had done when this poll looked at it
                snap[(cycle, name, int(nn))] = (
                    None if job is None
                    else (len(job.emitted), job.killed))
            it['snap'] = snap
            self.ev('poll-launch', jobs=polled)
            ctx.out = '\n'.join(out) + '\n'
            ctx.ret_code = 0
            return False
        if kind == 'jobs-kill':
            out = []
            dirs = [a for a in ctx.cmd if a.count('/') == 2 and a[0] != '/']
            for rel in dirs:
                cycle, name, nn = rel.split('/')
                job = self.jobs.get((cycle, name, int(nn)))
                if job is not None and job.live:
                    job.killed = True
                    # undelivered messages of a killed job are lost
                    out.append(f'[TASK JOB SUMMARY]{ts}|{rel}|0')
                    self.ev('kill', job=rel)
                else:
                    out.append(f'[TASK JOB SUMMARY]{ts}|{rel}|1')
            ctx.out = '\n'.join(out) + '\n'
            ctx.ret_code = 0
            return False
        if kind == 'xtrigger':
            sig = ctx.get_signature()
            res = self._xtrig_result(sig, ctx)
            ctx.out = json.dumps(res)
            ctx.ret_code = 0
            self.ev('xtrig-call', sig=sig, t=self.clock.now, res=res[0])
            return False
        # anything else (event handlers, remote tidy...): succeed silently
        ctx.out = ''
        ctx.ret_code = 0
        self.ev('other-cmd', ckind=kind)
        return True

    def on_return(self, it):
        extra = {}
        if it.get('kind') == 'jobs-poll':
            extra['stale'] = sorted(
                f'{c}/{n}/{sn:02d}' for (c, n, sn) in it.get('snap', {})
                if self._poll_is_stale(it, (c, n, sn)))
        self.ev('return', cmd=it['id'], ckind=it.get('kind'), **extra)

    def _poll_is_stale(self, it, key) -> bool:
        """The job has emitted messages (or was killed) after the poll
        command looked at it: the result describes a past state."""
        snap = it.get('snap', {}).get(key)
        job = self.jobs.get(key)
        if snap is None or job is None:
            return False
        return (len(job.emitted), job.killed) != snap

    def in_stale_poll(self, cycle, name, submit_num):
        """None: no jobs-poll callback is running; else whether the poll
        result being processed for this job is stale (see _poll_is_stale)."""
        it = self.returning
        if it is None or it.get('kind') != 'jobs-poll':
            return None
        return self._poll_is_stale(it, (cycle, name, submit_num))

    def _xtrig_result(self, sig, ctx):
        r = self.xtrig_results.get(sig)
        if callable(r):
            r = r(sig, ctx)
        if r is None:
            return [False, {}]
        return r

    def _script_for(self, cycle, name, sn) -> Tuple[List[str], bool]:
        """Messages the job emits and whether submission succeeds."""
        spec = self.outcomes.get(f'{cycle}/{name}')
        oc = None
        if spec:
            oc = spec[sn - 1] if sn - 1 < len(spec) else spec[-1]
        if oc is None:
            return list(self.default_script(cycle, name, sn)), True
        if oc == 'submit-fail':
            return [], False
        if isinstance(oc, dict):
            return list(oc['msgs']), True
        raise ValueError(f'bad outcome {oc!r}')

    def _poll_lines(self, rel, job: Optional[Job], ts) -> List[str]:
        d: Dict[str, Any] = {'job_runner_name': 'background'}
        msgs = []
        if job is None or not job.submit_ok:
            d.update(job_runner_exit_polled=1, time_submit_exit=ts)
        else:
            d.update(job_id=str(1), time_submit_exit=ts)
            fin = job.final
            if (job.killed or job.vanished) and fin is None:
                d['job_runner_exit_polled'] = 1
                if job.started:
                    d['time_run'] = ts
                    d['run_status'] = 1
                    d['run_signal'] = 'TERM'
                    d['time_run_exit'] = ts
            elif fin == 'succeeded':
                d.update(job_runner_exit_polled=1, time_run=ts,
                         time_run_exit=ts, run_status=0)
            elif fin == 'failed':
                d.update(job_runner_exit_polled=1, time_run=ts,
                         time_run_exit=ts, run_status=1, run_signal='ERR')
            elif job.started:
                d.update(job_runner_exit_polled=0, time_run=ts)
            else:
                d.update(job_runner_exit_polled=0)
            for m in job.emitted:
                if m not in ('started', 'succeeded') and not m.startswith('failed'):
                    msgs.append(m)
        # (the real `cylc jobs-poll` prints a job's message lines before its
        # summary line, and the callback handles lines in that order)
        lines = [f'[TASK JOB MESSAGE]{ts}|{rel}|{ts}|INFO|{m}' for m in msgs]
        lines.append(f'[TASK JOB SUMMARY]{ts}|{rel}|{json.dumps(d)}')
        return lines

    def _prereq_snapshot(self, cycle, name) -> dict:
        """State of the task proxy at launch time (for oracles)."""
        schd = self.schd
        itask = schd.pool._get_task_by_id(f'{cycle}/{name}') if schd else None
        if itask is None:
            return {'in_pool': False}
        sat = {}
        for pre in itask.state.prerequisites:
            for key, val in pre.items():
                k = f'{key.point}/{key.task}:{key.output}'
                sat[k] = bool(val)
        return {
            'in_pool': True,
            'flows': sorted(itask.flow_nums),
            'manual': bool(getattr(itask, 'is_manual_submit', False)),
            'prereqs_all': itask.state.prerequisites_all_satisfied(),
            'sat': sat,
            'held': itask.state.is_held,
            'status': itask.state.status,
        }

    # -- scheduler lifecycle -------------------------------------------------
    async def start(self, **opts):
        """Start a scheduler incarnation (first start or restart)."""
        from cylc.flow.scheduler import Scheduler
        from cylc.flow.scheduler_cli import RunOptions
        from cylc.flow.cfgspec.glbl_cfg import glbl_cfg
        from vf.cylcutil import reset_globals
        reset_globals()
        glbl_cfg(reload=True)
        VCluster.cls.current_sim = self
        CURRENT_SIM[0] = self
        self.incarnation += 1
        o = {'run_mode': 'live', 'paused_start': False}
        o.update(self.run_opts)
        o.update(opts)
        options = RunOptions(**o)
        self.stop_reason = None
        self.crashed = None
        schd = Scheduler(self.wid, options)
        self.schd = schd
        self._permit = asyncio.Semaphore(0)
        self._done = asyncio.Semaphore(0)
        await schd.install()
        await schd.start()
        if schd.server is not None and schd.server.thread is not None:
            schd.server.thread.join()
        self.cluster = schd.proc_pool
        self._instrument(schd)
        real_main_loop = schd._main_loop

        async def gated():
            await self._permit.acquire()
            self._in_loop = True
            try:
                await real_main_loop()
            finally:
                self._in_loop = False
                self._done.release()

        schd._main_loop = gated
        self.task = asyncio.ensure_future(self._run(schd))
        # let run_scheduler reach the first gate (restart polls etc.)
        await asyncio.sleep(0)
        for _ in range(50):
            if self.task.done():
                break
            await asyncio.sleep(0)
        self.ev('started', restart=schd.is_restart)
        return schd

    async def _run(self, schd):
        from cylc.flow.scheduler import SchedulerStop
        try:
            await schd.run_scheduler()
        except SchedulerStop as exc:
            self.stop_reason = str(exc)
        except BaseException as exc:  # noqa
            self.crashed = exc

    @property
    def running(self) -> bool:
        return self.task is not None and not self.task.done()

    async def loop(self, n: int = 1) -> bool:
        """Run n main-loop iterations. Returns False once shut down."""
        for _ in range(n):
            if not self.running:
                return False
            self.iteration += 1
            self._permit.release()
            waiter = asyncio.ensure_future(self._done.acquire())
            await asyncio.wait(
                [waiter, self.task], return_when=asyncio.FIRST_COMPLETED)
            if not waiter.done():
                waiter.cancel()
                with suppress(asyncio.CancelledError, Exception):
                    await waiter
            # give the scheduler task a chance to finish shutting down
            for _ in range(200):
                await asyncio.sleep(0)
                if self.task.done() or self._waiting_at_gate():
                    break
            self.ev('iter-end')
            if self.task.done():
                self._finish()
                return False
        return True

    def _waiting_at_gate(self) -> bool:
        return bool(self._permit._waiters) if self._permit._waiters is not None else False

    def _finish(self):
        reason = repr(self.shutdown_reason)
        if self.crashed is not None:
            reason = f'CRASH {self.crashed!r}'
        self.ev('stopped', reason=reason)

    async def run_cmd(self, cmd_gen) -> Any:
        """Run a cylc command (async generator from cylc.flow.commands)
        synchronously, as the scheduler does when dequeuing it."""
        from cylc.flow import commands
        return await commands.run_cmd(cmd_gen)

    async def force_stop(self):
        """Tear down (end of case)."""
        from cylc.flow.scheduler import SchedulerStop
        from cylc.flow.workflow_status import StopMode
        if self.running:
            self.schd._set_stop(StopMode.REQUEST_NOW_NOW)
            for _ in range(5):
                if not await self.loop():
                    break
        if self.running:
            self.task.cancel()
            with suppress(BaseException):
                await self.task
        schd = self.schd
        if schd is not None:
            with suppress(Exception):
                schd.workflow_db_mgr.on_workflow_shutdown()

    def cleanup(self):
        shutil.rmtree(self.run_dir, ignore_errors=True)

    # -- job / message control ------------------------------------------------
    def live_jobs(self) -> List[Job]:
        return [j for j in self.jobs.values() if j.has_next()]

    def advance(self, job: Job) -> Optional[dict]:
        m = job.next_message()
        if m is None:
            return None
        msg = {'job': job.key, 'msg': m, 'n': len(self.trace)}
        self.inflight.append(msg)
        self.ev('emit', job=job.rel_id, msg=m)
        return msg

    def deliver(self, msg: dict, keep: bool = False):
        """Put a job message on the scheduler's message queue (where the
        server thread would put it)."""
        from cylc.flow.id import Tokens
        from cylc.flow.network.resolvers import TaskMsg
        # Harness constraint (soundness of the schedule domain): a job's
        # final message is not delivered while the jobs-submit command that
        # launched it has not returned yet; the command is returned first
        # and the message stays in flight.  ("started" may still overtake
        # the submit callback.)
        if msg['msg'] == 'succeeded' or msg['msg'].startswith('failed'):
            for it in self.pending_cmds():
                if it.get('kind') == 'jobs-submit' and tuple(
                        msg['job']) in it.get('jobs', ()):
                    it['returned'] = True
                    self.ev('deliver-deferred', job=list(msg['job']),
                            msg=msg['msg'])
                    return False
        if not keep and msg in self.inflight:
            self.inflight.remove(msg)
        if not self.running:
            self.ev('msg-lost', job=list(msg['job']), msg=msg['msg'])
            return
        cycle, name, sn = msg['job']
        sev = 'CRITICAL' if msg['msg'].startswith('failed') else 'INFO'
        tm = TaskMsg(
            Tokens(cycle=cycle, task=name, job=f'{sn:02d}', relative=True)
            if False else Tokens(f'{cycle}/{name}/{sn:02d}', relative=True),
            '2000-01-01T00:00:00Z', sev, msg['msg'])
        self.schd.message_queue.put(tm)
        self.delivered_log.append({'job': tuple(msg['job']),
                                   'msg': msg['msg']})
        self.ev('deliver', job=f'{cycle}/{name}/{sn:02d}', msg=msg['msg'],
                dup=keep)

    def drop(self, msg: dict):
        if msg in self.inflight:
            self.inflight.remove(msg)
            self.ev('drop', job=list(msg['job']), msg=msg['msg'])

    def pending_cmds(self) -> list:
        if self.cluster is None:
            return []
        return [it for it in self.cluster.pending if not it['returned']]

    def mark_returned(self, it):
        it['returned'] = True

    # -- instrumentation (monkeypatching of this scheduler's objects) ---------
    def _instrument(self, schd):
        sim = self
        pool = schd.pool
        orig_add = pool.add_to_pool
        orig_remove = pool.remove

        def add_to_pool(itask, *a, **k):
            r = orig_add(itask, *a, **k)
            sim.ev('add', cycle=str(itask.point), name=itask.tdef.name,
                   flows=sorted(itask.flow_nums),
                   held=itask.state.is_held,
                   status=itask.state.status)
            return r

        def remove(itask, *a, **k):
            for o in itask.state.outputs.get_completed_outputs():
                sim.completed_removed.add(
                    f'{itask.point}/{itask.tdef.name}:{o}')
            sim.ev('remove', cycle=str(itask.point), name=itask.tdef.name,
                   status=itask.state.status,
                   complete=itask.state.outputs.is_complete(),
                   outputs=sorted(
                       itask.state.outputs.get_completed_outputs()),
                   reason=(a[0] if a else k.get('reason')))
            return orig_remove(itask, *a, **k)

        pool.add_to_pool = add_to_pool
        pool.remove = remove

        tem = schd.task_events_mgr
        orig_pm = tem.process_message
        depth = [0]

        def process_message(itask, severity, message, event_time=None,
                            flag=tem.FLAG_INTERNAL, submit_num=None,
                            forced=False):
            top = depth[0] == 0
            depth[0] += 1
            if top:
                was_transient = itask.transient
                before = (itask.state.status, itask.submit_num, sorted(
                    itask.state.outputs.get_completed_outputs()))
                n_put = sim.cluster.n_put if sim.cluster else 0
            try:
                r = orig_pm(itask, severity, message, event_time, flag,
                            submit_num, forced)
            finally:
                depth[0] -= 1
            # (a message that completes the task also removes it from the
            # pool, which marks the proxy transient: still recorded)
            if top and not was_transient:
                after = (itask.state.status, itask.submit_num, sorted(
                    itask.state.outputs.get_completed_outputs()))
                sim.ev('pm', cycle=str(itask.point), name=itask.tdef.name,
                       msg=message, flag=flag, msg_submit_num=submit_num,
                       before=list(before), after=list(after), ret=bool(r),
                       forced=bool(forced),
                       stale_poll=sim.in_stale_poll(
                           str(itask.point), itask.tdef.name,
                           itask.submit_num))
            return r

        tem.process_message = process_message
        # the job manager and pool hold their own references
        orig_cbs = pool.can_be_spawned

        def can_be_spawned(name, point):
            r = orig_cbs(name, point)
            if not r:
                sim.ev('spawn-refused', cycle=str(point), name=name)
            return r

        pool.can_be_spawned = can_be_spawned

        orig_rr = pool.release_runahead_tasks

        def release_runahead_tasks():
            before = {
                t.identity for t in pool.get_tasks() if t.state.is_runahead}
            if before:
                snap = [(str(t.point), t.tdef.name, t.state.is_runahead,
                         bool(t.is_manual_submit))
                        for t in pool.get_tasks()]
            r = orig_rr()
            if before:
                released = [
                    t for t in pool.get_tasks()
                    if t.identity in before and not t.state.is_runahead]
                if released:
                    sim.ev('rh-release',
                           released=[[str(t.point), t.tdef.name,
                                      bool(t.is_manual_submit)]
                                     for t in released],
                           pool=snap,
                           limit=str(pool.runahead_limit_point),
                           stop=str(pool.stop_point),
                           max_future=str(pool.max_future_offset))
            return r

        pool.release_runahead_tasks = release_runahead_tasks

        orig_rq = pool.release_queued_tasks

        def release_queued_tasks():
            counter, _pre = pool.count_active_tasks()
            act = [(str(t.point), t.tdef.name, t.state.status,
                    bool(t.waiting_on_job_prep), bool(t.is_manual_submit))
                   for t in pool.get_tasks()
                   if t.waiting_on_job_prep or t.state(
                       'preparing', 'submitted', 'running')]
            queued = [(str(t.point), t.tdef.name, t.state.is_held)
                      for t in pool.get_tasks() if t.state.is_queued]
            r = orig_rq()
            newly = [t for t in r if (str(t.point), t.tdef.name) not in
                     {(a[0], a[1]) for a in act}]
            if newly or queued:
                sim.ev('q-release',
                       released=[[str(t.point), t.tdef.name] for t in newly],
                       active=act, queued=queued)
            return r

        pool.release_queued_tasks = release_queued_tasks

        orig_shutdown = schd.shutdown

        async def shutdown(reason):
            sim.shutdown_reason = reason
            sim.ev('shutdown', reason=repr(reason),
                   pool=sim.pool_snapshot())
            return await orig_shutdown(reason)

        schd.shutdown = shutdown

        orig_set_stop = schd._set_stop

        def _set_stop(mode=None):
            sim.ev('set-stop', mode=str(getattr(mode, 'name', mode)),
                   pool=sim.pool_snapshot())
            return orig_set_stop(mode)

        schd._set_stop = _set_stop

        orig_stall = schd.check_workflow_stalled

        def check_workflow_stalled():
            before = schd.is_stalled
            r = orig_stall()
            if r and not before:
                sim.ev('stalled', pool=sim.pool_snapshot())
            return r

        schd.check_workflow_stalled = check_workflow_stalled

    def completed_now(self) -> List[str]:
        """Outputs recorded complete by the scheduler so far
        ('cycle/name:output'), from removed tasks and the current pool."""
        out = set(self.completed_removed)
        schd = self.schd
        if schd is not None and hasattr(schd, 'pool'):
            for itask in schd.pool.get_tasks():
                for o in itask.state.outputs.get_completed_outputs():
                    out.add(f'{itask.point}/{itask.tdef.name}:{o}')
        return sorted(out)

    def pool_snapshot(self) -> list:
        out = []
        schd = self.schd
        if schd is None or not hasattr(schd, 'pool'):
            return out
        for itask in schd.pool.get_tasks():
            out.append(self.task_snapshot(itask))
        out.sort(key=lambda d: (d['cycle'], d['name']))
        return out

    @staticmethod
    def task_snapshot(itask) -> dict:
        sat = {}
        for pre in itask.state.prerequisites:
            for key, val in pre.items():
                sat[f'{key.point}/{key.task}:{key.output}'] = val
        return {
            'cycle': str(itask.point), 'name': itask.tdef.name,
            'status': itask.state.status,
            'held': itask.state.is_held,
            'queued': itask.state.is_queued,
            'runahead': itask.state.is_runahead,
            'flows': sorted(itask.flow_nums),
            'submit_num': itask.submit_num,
            'outputs': sorted(itask.state.outputs.get_completed_outputs()),
            'sat': sat,
            'prereqs_all': itask.state.prerequisites_all_satisfied(),
            'manual': bool(itask.is_manual_submit),
            'flow_wait': bool(itask.flow_wait),
            'xtriggers': dict(itask.state.xtriggers),
        }
