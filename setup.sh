#!/bin/bash
# MANIFEST.setup_cmd: offline; idempotent.
here="$(cd "$(dirname "$0")" && pwd)"
cd "$here" || exit 1
export PIP_NO_INDEX=1
W=/opt/veriftools/wheels
if ! /venv/bin/python -c "import hypothesis" 2>/dev/null; then
    /venv/bin/pip install --no-index --find-links "$W" hypothesis >/dev/null 2>&1 \
    || /venv/bin/pip install --no-index --find-links "$W" --target "$here/.deps" hypothesis >/dev/null 2>&1
fi
if ! PYTHONPATH="$here/.deps" /venv/bin/python -c "import atheris" 2>/dev/null; then
    /venv/bin/pip install --no-index --find-links "$W" --target "$here/.deps" atheris >/dev/null 2>&1 || echo "setup: atheris not installed (thorough fuzz targets will be skipped)"
fi
mkdir -p "$here/evidence" "$here/replays"
PYTHONPATH="$here:/repo:$here/.deps" /venv/bin/python -c "import hypothesis, cylc.flow, vf.core; print('setup ok: hypothesis', hypothesis.__version__, 'cylc', cylc.flow.__version__)"
