"""Debug: replay an S-engine case verbosely.  tools/show_s.py <replay.json> [module]"""
import asyncio, json, os, sys, tempfile, time
scr = tempfile.mkdtemp(prefix='vfshow-')
os.environ['HOME'] = scr + '/home'; os.makedirs(os.environ['HOME'])
os.environ['CYLC_CONF_PATH'] = scr + '/conf'
os.chdir(scr)
sys.path[:0] = ['/verif', os.environ.get('VF_REPO', '/repo')]
from vf import core
import importlib
rp = json.load(open(sys.argv[1]))
case = rp.get('case', rp)
prop = rp.get('property', sys.argv[2] if len(sys.argv) > 2 else 'C01')
mod = importlib.import_module('vf.props.' + prop.lower())
from vf.gen.wfspec import render_flow
print(render_flow(case['spec']))
print('outcomes', case.get('outcomes')); print('schedule', case.get('schedule'))
import vf.sim.engine as eng
orig_ev = eng.Sim.ev
def ev(self, kind, **d):
    orig_ev(self, kind, **d)
    if kind not in ('iter-end',):
        print(f'[{self.iteration}] {kind}', {k: v for k, v in d.items() if k not in ('done', 'pool', 'sat', 'k', 'it', 'inc')})
        if kind in ('stalled', 'shutdown', 'set-stop'):
            for t in d.get('pool', []): print('      ', {k: t[k] for k in ('cycle','name','status','runahead','queued','held','outputs','sat')})
eng.Sim.ev = ev
col = core.Collector(prop)
ctx = core.Ctx(prop, 'quick', 1, 0, 1, scr, col)
t0 = time.time()
res = mod.check_case(case, ctx)
print('time', time.time() - t0)
for v in res.violations: print('VIOL', v.sig, v.detail)
print('classes', list(res.classes))
import shutil; shutil.rmtree(scr, ignore_errors=True)
