#!/bin/bash
# tools/mut.sh <name> <patch-file|-e 'python-expr-edit'> -- <check args...>
# Apply a mutant to a scratch worktree of /repo (never to /repo), run a check
# against it via VF_REPO, remove the worktree.  Exit code = the check's.
# Usage:  tools/mut.sh m1 /path/patch.diff -- C35 --tier quick
#         tools/mut.sh m1 --sed 'cylc/flow/c3mro.py' 's/a/b/' -- C35 --tier quick
set -u
name="$1"; shift
wt="/tmp/vfmut/$name"
rm -rf "$wt"; mkdir -p /tmp/vfmut
git -C /repo worktree prune
git -C /repo worktree add --detach -f "$wt" HEAD >/dev/null 2>&1 || { echo "worktree failed"; exit 2; }
# carry over uncommitted tracked changes of /repo (none expected)
if [ "$1" = "--sed" ]; then
    file="$2"; expr="$3"; shift 3
    before=$(md5sum "$wt/$file")
    sed -i -E "$expr" "$wt/$file"
    after=$(md5sum "$wt/$file")
    if [ "$before" = "$after" ]; then echo "MUTANT DID NOT CHANGE FILE"; git -C /repo worktree remove --force "$wt"; exit 3; fi
elif [ "$1" = "--repl" ]; then
    file="$2"; old="$3"; new="$4"; shift 4
    python3 - "$wt/$file" "$old" "$new" <<'PYEOF' || { echo "MUTANT DID NOT CHANGE FILE"; git -C /repo worktree remove --force "$wt"; exit 3; }
import sys
p, old, new = sys.argv[1:4]
old = old.encode().decode('unicode_escape'); new = new.encode().decode('unicode_escape')
s = open(p).read()
if old not in s:
    sys.exit(1)
open(p, 'w').write(s.replace(old, new, 1))
PYEOF
else
    patch="$1"; shift
    git -C "$wt" apply "$patch" || { echo "patch failed"; git -C /repo worktree remove --force "$wt"; exit 3; }
fi
[ "$1" = "--" ] && shift
( cd "$wt" && git diff --stat | tail -1 )
VF_REPO="$wt" VF_NO_EVIDENCE=1 "$(dirname "$0")/../check" "$@"
rc=$?
git -C /repo worktree remove --force "$wt"
exit $rc
