#!/usr/bin/env python3
"""Seeded-defect bookkeeping.

  tools/seeded.py import <src_dir> <name> <PROP>     copy patch.diff / demo / meta.json to seeded/<name>/
  tools/seeded.py verify <name> [--tests 'pytest args']
        scratch worktree of /repo HEAD: demo passes without the patch, fails
        with it, the given existing tests pass with it; results -> meta.json
  tools/seeded.py check <name> [CHECK ...] [--tier quick]
        run registered check(s) (default: the property's own) against the
        patched scratch worktree (VF_REPO), record detected / missed
  tools/seeded.py fullsuite <name>      the whole pinned test suite with the patch (slow)

Never edits /repo; the scratch worktree lives under /tmp/vfseed and is removed.
"""
import json
import os
import shutil
import subprocess
import sys
import time

ROOT = os.path.dirname(os.path.dirname(os.path.abspath(__file__)))
SEED = os.path.join(ROOT, 'seeded')
PY = '/venv/bin/python'


def sh(cmd, **kw):
    return subprocess.run(cmd, shell=isinstance(cmd, str), text=True,
                          capture_output=True, **kw)


def worktree(name):
    wt = f'/tmp/vfseed/{name}-{os.getpid()}'
    os.makedirs('/tmp/vfseed', exist_ok=True)
    sh('git -C /repo worktree prune')
    r = sh(f'git -C /repo worktree add --detach -f {wt} HEAD')
    if r.returncode:
        sys.exit('worktree failed: ' + r.stderr)
    return wt


def drop(wt):
    sh(f'git -C /repo worktree remove --force {wt}')
    shutil.rmtree(wt, ignore_errors=True)


def load_meta(name):
    p = os.path.join(SEED, name, 'meta.json')
    return json.load(open(p)) if os.path.exists(p) else {}


def save_meta(name, meta):
    with open(os.path.join(SEED, name, 'meta.json'), 'w') as f:
        json.dump(meta, f, indent=1)


def demo_cmd(name, wt):
    d = os.path.join(SEED, name)
    if os.path.exists(os.path.join(d, 'test_demo.py')):
        tgt = os.path.join(wt, 'tests', 'integration', f'test_seeded_demo_{name.replace("-", "_")}.py')
        shutil.copy(os.path.join(d, 'test_demo.py'), tgt)
        return f'cd {wt} && PYTHONPATH={wt} {PY} -m pytest -q -p no:cacheprovider {tgt}'
    return f'cd {wt} && PYTHONPATH={wt} timeout 600 {PY} {os.path.join(d, "demo.py")}'


def cmd_import(src, name, prop):
    d = os.path.join(SEED, name)
    os.makedirs(d, exist_ok=True)
    for f in os.listdir(src):
        shutil.copy(os.path.join(src, f), os.path.join(d, f))
    meta = load_meta(name)
    agent = dict(meta)
    meta = {'property': prop, 'name': name}
    for k in ('summary', 'breaks', 'needs', 'why_tests_pass'):
        if k in agent:
            meta[k] = agent[k]
    meta['author_report'] = {k: v for k, v in agent.items()
                             if k not in meta}
    save_meta(name, meta)
    print('imported', d)


def cmd_verify(name, tests):
    meta = load_meta(name)
    wt = worktree(name)
    try:
        env = dict(os.environ, HOME=os.path.join(wt, '.home'))
        os.makedirs(env['HOME'], exist_ok=True)
        head = sh('git -C /repo log --format=%h -1').stdout.strip()
        r0 = sh(demo_cmd(name, wt), env=env)
        ap = sh(f'git -C {wt} apply {os.path.join(SEED, name, "patch.diff")}')
        if ap.returncode:
            print('PATCH DOES NOT APPLY', ap.stderr)
            meta['verified'] = {'repo_head': head, 'patch_applies': False,
                                'stderr': ap.stderr[-500:]}
            save_meta(name, meta)
            return 1
        comp = sh(f'cd {wt} && {PY} -m compileall -q cylc/flow', env=env)
        r1 = sh(demo_cmd(name, wt), env=env)
        ver = {
            'repo_head': head, 'patch_applies': True,
            'compiles': comp.returncode == 0,
            'demo_exit_without_change': r0.returncode,
            'demo_exit_with_change': r1.returncode,
            'demo_tail_with_change': (r1.stdout + r1.stderr)[-600:],
        }
        ok = r0.returncode == 0 and r1.returncode != 0
        if tests:
            t0 = time.time()
            cmd = (f'cd {wt} && PYTHONPATH={wt} {PY} -m pytest -q '
                   f'-p no:cacheprovider --timeout=900 {tests}')
            rt = sh(cmd, env=env)
            tail = rt.stdout.strip().splitlines()[-1:] or ['']
            failed = [l for l in rt.stdout.splitlines()
                      if l.startswith(('FAILED', 'ERROR'))]
            ver['existing_tests_with_change'] = {
                'cmd': cmd.replace(wt, '<worktree>'), 'summary': tail[0],
                'failed': failed[:30], 'wall_s': round(time.time() - t0)}
        meta['verified'] = ver
        save_meta(name, meta)
        print(json.dumps(ver, indent=1))
        return 0 if ok else 1
    finally:
        drop(wt)


def cmd_check(name, checks, tier):
    meta = load_meta(name)
    checks = checks or [meta['property']]
    wt = worktree(name)
    try:
        ap = sh(f'git -C {wt} apply {os.path.join(SEED, name, "patch.diff")}')
        if ap.returncode:
            print('PATCH DOES NOT APPLY', ap.stderr)
            return 2
        res = meta.setdefault('checks', {})
        for c in checks:
            t0 = time.time()
            env = dict(os.environ, VF_REPO=wt, VF_NO_EVIDENCE='1')
            r = sh([os.path.join(ROOT, 'check'), c, '--tier', tier], env=env)
            out = r.stdout + r.stderr
            sigs = sorted({l.split('signature:')[1].strip()
                           for l in out.splitlines() if 'signature:' in l})
            status = {0: 'MISSED', 1: 'detected', 2: 'harness-error'}.get(
                r.returncode, f'rc={r.returncode}')
            res[f'{c}:{tier}'] = {
                'status': status, 'signatures': sigs,
                'wall_s': round(time.time() - t0),
                'verif_commit': sh(f'git -C {ROOT} log --format=%h -1').stdout.strip()}
            print(name, c, tier, status, sigs, f'{time.time() - t0:.0f}s')
            if r.returncode == 2:
                print(out[-1500:])
        save_meta(name, meta)
    finally:
        drop(wt)
    return 0


def cmd_fullsuite(name):
    meta = load_meta(name)
    wt = worktree(name)
    try:
        ap = sh(f'git -C {wt} apply {os.path.join(SEED, name, "patch.diff")}')
        if ap.returncode:
            print('PATCH DOES NOT APPLY')
            return 2
        env = dict(os.environ)      # same environment as the baseline run
        xml = f'/tmp/vfseed/{name}.junit.xml'
        t0 = time.time()
        sh(f'cd {wt} && PYTHONPATH={wt} {PY} -m pytest -ra -q -p no:cacheprovider '
           f'--timeout=900 --continue-on-collection-errors --junitxml={xml} '
           f'--ignore=tests/integration/tui',
           env=env)
        import xml.etree.ElementTree as ET
        base = set(json.load(open('/root/.vp/BASELINE.json'))['stable_pass'])
        bad = []
        n = 0
        for tc in ET.parse(xml).iter('testcase'):
            n += 1
            key = f"{tc.get('classname')}::{tc.get('name')}"
            if key in base and any(c.tag in ('failure', 'error') for c in tc):
                bad.append(key)
        meta['full_suite_with_change'] = {
            'note': 'whole pinned suite except tests/integration/tui '
                    '(screen-timing tests, unreliable on a loaded machine)',
            'testcases': n, 'stable_pass_failures': bad,
            'wall_s': round(time.time() - t0)}
        save_meta(name, meta)
        print(name, 'stable_pass failures:', bad)
        os.remove(xml)
    finally:
        drop(wt)
    return 0


def cmd_retest(name):
    """Re-run, alone, the tests that failed in a (loaded-machine) fullsuite
    run; what still fails is a real failure."""
    meta = load_meta(name)
    fs = meta.get('full_suite_with_change') or {}
    bad = fs.get('stable_pass_failures') or []
    if not bad:
        print(name, 'nothing to re-test')
        return 0
    wt = worktree(name)
    try:
        ap = sh(f'git -C {wt} apply {os.path.join(SEED, name, "patch.diff")}')
        if ap.returncode:
            print('PATCH DOES NOT APPLY')
            return 2
        ids = []
        for key in bad:
            cls, _, test = key.partition('::')
            parts = cls.split('.')
            # tests.integration.test_x[.Class] -> tests/integration/test_x.py
            path = None
            for k in range(len(parts), 0, -1):
                cand = os.path.join(wt, *parts[:k]) + '.py'
                if os.path.exists(cand):
                    path = '/'.join(parts[:k]) + '.py'
                    rest = parts[k:]
                    break
            if path is None:
                continue
            if path.startswith('cylc/'):
                ids.append(path)          # doctest: run the module's doctests
            else:
                ids.append('::'.join([path] + rest + [test]))
        ids = sorted(set(ids))
        r = sh(f'cd {wt} && PYTHONPATH={wt} {PY} -m pytest -q -p no:cacheprovider '
               f'--timeout=900 --doctest-modules ' + ' '.join(
                   "'" + i + "'" for i in ids), env=dict(os.environ))
        failed = [l for l in r.stdout.splitlines()
                  if l.startswith(('FAILED', 'ERROR'))]
        fs['rerun_alone'] = {
            'tests': len(ids), 'summary': (r.stdout.strip().splitlines() or [''])[-1],
            'still_failing': [f.replace(wt, '') for f in failed][:20]}
        meta['full_suite_with_change'] = fs
        save_meta(name, meta)
        print(name, fs['rerun_alone'])
    finally:
        drop(wt)
    return 0


def main():
    a = sys.argv[1:]
    if a[0] == 'import':
        return cmd_import(a[1], a[2], a[3])
    if a[0] == 'verify':
        tests = a[a.index('--tests') + 1] if '--tests' in a else ''
        return cmd_verify(a[1], tests)
    if a[0] == 'check':
        tier = a[a.index('--tier') + 1] if '--tier' in a else 'quick'
        rest = [x for x in a[2:] if not x.startswith('--') and x != tier]
        return cmd_check(a[1], rest, tier)
    if a[0] == 'retest':
        return cmd_retest(a[1])
    if a[0] == 'fullsuite':
        return cmd_fullsuite(a[1])
    sys.exit(__doc__)


if __name__ == '__main__':
    sys.exit(main())
