#!/usr/bin/env python3
"""Run the registered mutants of one or more properties; append results to
SENSITIVITY.md.   tools/run_mutants.py C01 [C02 ...] [--tier quick] [--only name]

tools/mutants.json: {"C01": [{"name": "...", "file": "cylc/flow/x.py",
                              "sed": "s/a/b/", "note": "..."}]}
"""
import json, os, subprocess, sys, time
root = os.path.dirname(os.path.dirname(os.path.abspath(__file__)))
reg = json.load(open(os.path.join(root, 'tools', 'mutants.json')))
args = [a for a in sys.argv[1:] if not a.startswith('--')]
only = None
if '--only' in sys.argv:
    only = sys.argv[sys.argv.index('--only') + 1]
    args = [a for a in args if a != only]
res = []
for prop in args:
    for m in reg.get(prop, []):
        if only and m['name'] != only:
            continue
        t0 = time.time()
        cmd = [os.path.join(root, 'tools', 'mut.sh'), f"{prop}-{m['name']}"]
        if 'patch' in m:
            cmd += [os.path.join(root, m['patch'])]
        elif 'old' in m:
            cmd += ['--repl', m['file'], m['old'], m['new']]
        else:
            cmd += ['--sed', m['file'], m['sed']]
        cmd += ['--', m.get('check', prop), '--tier', 'quick']
        p = subprocess.run(cmd, capture_output=True, text=True)
        out = p.stdout + p.stderr
        sigs = [l.split('signature:')[1].strip() for l in out.splitlines() if 'signature:' in l]
        status = {0: 'MISSED', 1: 'detected', 2: 'harness-error', 3: 'mutant-did-not-apply'}.get(p.returncode, f'rc={p.returncode}')
        line = f"| {prop} | {m['name']} | {m.get('note','')} | {status} | {'; '.join(sorted(set(sigs)))[:160]} | {time.time()-t0:.0f}s |"
        print(line, flush=True)
        if p.returncode not in (0, 1):
            print(out[-1500:])
        res.append(line)
with open(os.path.join(root, 'SENSITIVITY.md'), 'a') as f:
    for l in res:
        f.write(l + '\n')
