#!/usr/bin/env python3
"""Write /verif/SEEDED.md from seeded/*/meta.json (run after tools/seeded.py)."""
import glob
import json
import os

ROOT = os.path.dirname(os.path.dirname(os.path.abspath(__file__)))


def short(text, n):
    text = ' '.join((text or '').split())
    return text if len(text) <= n else text[:n - 1].rstrip() + '…'


def main():
    rows = []
    for d in sorted(glob.glob(os.path.join(ROOT, 'seeded', '*', ''))):
        name = os.path.basename(d.rstrip('/'))
        m = json.load(open(os.path.join(d, 'meta.json')))
        ver = m.get('verified') or {}
        demo = '%s/%s' % (ver.get('demo_exit_without_change', '?'),
                          ver.get('demo_exit_with_change', '?'))
        fs = m.get('full_suite_with_change')
        if fs is None:
            tests = 'author-listed tests'
        elif not fs.get('stable_pass_failures'):
            tests = 'whole suite'
        elif not (fs.get('rerun_alone') or {}).get('still_failing', ['x']):
            tests = 'whole suite (load failures pass alone)'
        else:
            tests = 'whole suite: FAILS'
        res = []
        for key, c in sorted((m.get('checks') or {}).items()):
            sig = ', '.join(s.split(':', 1)[1] for s in c.get('signatures', []))
            res.append('%s %s%s' % (key.replace(':quick', '').replace(
                ':thorough', ' (thorough)'), c['status'],
                f' [{sig}]' if sig else ''))
        rows.append((m['property'], name, short(m.get('needs'), 230), demo,
                     tests, '; '.join(res), m.get('miss_reason', '')))
    det = sum(1 for r in rows if 'detected' in r[5].split(';')[0])
    out = [
        '# Seeded defects', '',
        'Independent breaking changes written by sub-agents that saw only the '
        'property text and a scratch checkout (never /verif).  Each is kept '
        'as `seeded/<name>/` (patch.diff, demonstration, meta.json).  '
        '"demo" = exit status of the demonstration without / with the change '
        '(0/1 = passes on the unchanged tree, fails with the change).  '
        '"tests" = which part of the pinned test suite was run with the '
        'change applied and passed.  "result" = the registered quick check of '
        'the property run against a scratch worktree with the change '
        '(`tools/seeded.py check`).', '',
        f'{len(rows)} seeds, {det} detected by the quick tier of their own '
        f'property.', '',
        '| property | seed | what it needs to show | demo | tests | result |',
        '|---|---|---|---|---|---|']
    for r in rows:
        res = r[5] + (f' — {r[6]}' if r[6] else '')
        out.append('| %s | %s | %s | %s | %s | %s |' % (
            r[0], r[1], r[2].replace('|', '\\|'), r[3], r[4],
            res.replace('|', '\\|')))
    with open(os.path.join(ROOT, 'SEEDED.md'), 'w') as f:
        f.write('\n'.join(out) + '\n')
    print(len(rows), 'seeds', det, 'detected')


if __name__ == '__main__':
    main()
