"""C30 finding: `cylc remove` erases the task's history only at the END of the
main-loop iteration that processes the command; a parent output (or a
`cylc set` of a parent output) handled in that same iteration cannot respawn
the removed task, which then does not run again.

    graph:  R1 = "a | b => c"

History (real Scheduler on the virtual cluster of /verif/vf/sim, which is
used only to single-step the main loop and to decide when job messages
arrive; a plain script would need the same scaffolding):

    1. a succeeds: 1/c is spawned, runs, succeeds, leaves the pool
       (b is still running)
    2. b's "succeeded" message reaches the scheduler's message queue
    3. `cylc remove 1/c` is queued (the user wants c to run again off b);
       the next main-loop iteration runs process_command_queue() (the
       removal) and then process_queued_task_messages() (b succeeded)
         - commands._remove_matched_tasks calls
           WorkflowDatabaseManager.remove_task_from_flows(), which only
           *queues* the UPDATE of task_states / task_outputs
         - b:succeeded -> spawn_on_output -> spawn_task(c): the database
           still shows 1/c succeeded in flow 1 -> "already finished", not
           spawned
    4. the queued UPDATE is executed at the end of the iteration: too late,
       nothing will spawn c again; the scheduler shuts down.

Control: the same history with ONE main-loop iteration between the removal
and the arrival of b's message respawns c, which runs a second time.

The same window exists for a waiting pooled target (`a & b => c`, c removed
while waiting for b, b succeeds in the same iteration: the stale row makes
TaskPool.spawn_task say "Not respawning 1/c - task was removed", its
suicide-trigger heuristic) and for `cylc remove X` followed by
`cylc set <parent of X>` in one command batch.

Property C30: "... erases its history in those flows so it can run again
later": here the task can not run again although a parent completed after
the removal.  The code base treats the analogous windows as bugs:
spawn_on_output flushes the DB after a suicide removal "in case of very
quick respawn attempt" (#6066), TaskPool.remove flushes (#6315), and
_force_trigger_tasks flushes right after its own _remove_matched_tasks.

Candidate minimal fix: call schd.workflow_db_mgr.process_queued_ops() at
the end of commands._remove_matched_tasks (as _force_trigger_tasks does).

Run: cd /verif && PYTHONPATH=/verif:/repo /venv/bin/python \
         findings/C30_remove_history_erased_late.py
"""
import os
import shutil
import sys
import tempfile

scr = tempfile.mkdtemp(prefix='vf-finding-')
os.environ['HOME'] = scr + '/home'
os.makedirs(os.environ['HOME'])
os.environ['CYLC_CONF_PATH'] = scr + '/conf'
os.chdir(scr)
sys.path[:0] = [os.path.dirname(os.path.dirname(os.path.abspath(__file__))),
                os.environ.get('VF_REPO', '/repo')]

from vf import core  # noqa: E402
from vf.sim.drive import SCase, run_async  # noqa: E402


def atom(t):
    return {'t': t, 'off': None, 'abs': None, 'out': 'succeeded',
            'implicit': True, 'longform': False}


SPEC = {
    'mode': 'integer', 'icp': 1, 'fcp': 1, 'tasks': ['a', 'b', 'c'],
    'custom': {},
    'opt': {t: {'succ': False, 'submit': False, 'fail_required': False,
                'custom': {}} for t in 'abc'},
    'retries': {}, 'extra': {},
    'sections': [{'rec': {'kind': 'R1', 'at': 1, 'form': 0}, 'lines': [
        {'lhs': None, 'rhs': ['a']},
        {'lhs': None, 'rhs': ['b']},
        {'lhs': {'op': '|', 'args': [atom('a'), atom('b')]}, 'rhs': ['c']},
    ]}],
}


async def history(loop_between: bool):
    from cylc.flow import commands
    col = core.Collector('C30')
    ctx = core.Ctx('C30', 'quick', 1, 0, 1, scr, col)
    case = {'spec': SPEC, 'outcomes': {}, 'schedule': []}
    async with SCase(case, ctx) as sc:
        sim = sc.sim

        def job(name):
            return sim.jobs[('1', name, 1)]

        async def run_job(name, upto):
            """job emits its messages up to and including `upto`, each
            delivered and processed; its jobs-submit command returns first."""
            while True:
                msg = sim.advance(job(name))
                while msg in sim.inflight:
                    sim.deliver(msg)     # (deferred while jobs-submit is out)
                    await sim.loop()
                await sim.loop()
                if msg['msg'] == upto:
                    return

        while ('1', 'b', 1) not in sim.jobs:
            await sim.loop()          # a and b submitted
        await run_job('a', 'succeeded')
        await run_job('b', 'started')
        while ('1', 'c', 1) not in sim.jobs:
            await sim.loop()
        await run_job('c', 'succeeded')
        pool = {t['name']: t for t in sim.pool_snapshot()}
        assert sorted(pool) == ['b'], pool       # c finished and gone
        # b finishes; its message is on the wire
        msg = sim.advance(job('b'))
        assert msg['msg'] == 'succeeded'
        if loop_between:
            await commands.run_cmd(commands.remove_tasks(sim.schd, ['1/c'], []))
            await sim.loop()          # removal flushed to the database
            sim.deliver(msg)
        else:
            sim.deliver(msg)          # arrives before the next iteration ...
            await commands.run_cmd(commands.remove_tasks(sim.schd, ['1/c'], []))
        await sim.loop()              # ... which handles command, then message
        in_pool = any(t['name'] == 'c' for t in sim.pool_snapshot()) \
            if sim.running else False
        shut, _q = await sc.drain()
        ran = [k for k in sim.journal if k[1] == 'c']
        return in_pool, shut, ran


try:
    bad = run_async(history(False))
    good = run_async(history(True))
finally:
    os.chdir('/')
    shutil.rmtree(scr, ignore_errors=True)
print('removal and b:succeeded in the same iteration : c back in pool=%s, '
      'shut down=%s, c jobs=%s' % bad)
print('one iteration between removal and b:succeeded : c back in pool=%s, '
      'shut down=%s, c jobs=%s' % good)
assert good[0] and len(good[2]) == 2, 'control history did not re-run c'
if not bad[0] and len(bad[2]) == 1:
    print('DEFECT: 1/c was removed, then its parent b succeeded, but c was '
          'not respawned: the history erased by `cylc remove` was still in '
          'the database when b:succeeded tried to spawn c')
else:
    print('defect not present')
