"""C14: three kinds of malformed graph line are parsed instead of rejected.

(1) stray parenthesis on a lone-node line: the lone node is extracted with
    REC_NODES.findall and the parenthesis is dropped before the
    "Mismatched parentheses" check sees it.
(2) null operand in a conditional left side: the "Null task name" check
    splits on '&' only for non-conditional lefts; with '|' or '(' present the
    whole text is one item, so 'a | b & => c' is stored as the expression
    'a:succeeded|b:succeeded&'.
(3) offset only on the right, when the right side is an &-list: the check
    records check_terminals['c&b[-P1]'] but looks it up per node 'b[-P1]'.
    'a => b[-P1]' is rejected, 'a => c & b[-P1]' is not.

Run: PYTHONPATH=/repo /venv/bin/python findings/C14_malformed_lines_accepted.py
"""
from cylc.flow.graph_parser import GraphParser
from cylc.flow.exceptions import GraphParseError

bad = 0
for control, broken in [
    ('(a => b', ')a'),
    ('(a => b', '(a'),
    ('a & => c', 'a | b & => c'),
    ('a & => c', '(a | b) & => c'),
    ('a => b[-P1]', 'a => c & b[-P1]'),
]:
    for graph, role in [(control, 'control'), (broken, 'broken ')]:
        gp = GraphParser()
        try:
            gp.parse_graph(graph)
        except GraphParseError as exc:
            print(f'{role} {graph!r}: GraphParseError ({str(exc)[:50]})')
        else:
            if role == 'broken ':
                bad += 1
            print(f'{role} {graph!r}: ACCEPTED -> {gp.triggers}')
print('DEFECT REPRODUCED' if bad else 'not reproduced')
