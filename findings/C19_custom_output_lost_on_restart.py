"""C19 finding (REPAIRED in /repo by commit b62f691 - this script now exits 0;
kept as a regression reproduction, mutant `revert-custom-outputs-fix` in
tools/mutants_C19.json): a completed custom output whose message differs
from its name was not restored on restart.

Before the repair:

WorkflowDatabaseManager.put_update_task_outputs() stores
`json.dumps(itask.state.outputs.get_completed_outputs())`, a
{trigger-name: message} dict (since 8.3).  The restart loader

    # TaskPool.load_db_task_pool_for_restart
    for message in json.loads(outputs_str):
        itask.state.outputs.set_message_complete(message)

iterates that dict - i.e. the trigger *names* - and passes them to
set_message_complete(), which looks the value up among the *messages*.  For
the standard outputs name == message; for a custom output declared as
`x = "the x file is ready"` nothing matches and the output comes back
incomplete.  (TaskPool._load_historical_outputs has the dict-aware code:
`for trigger in outputs.keys(): set_trigger_complete(trigger)`.)

For a running task the restart poll usually repairs this (the job's status
file still lists the message); a failed / succeeded task retained as
incomplete is not polled, so its custom outputs stay lost.

C19: a restart restores every pooled task's completed outputs.

Candidate fix: use the same dict / list handling as
_load_historical_outputs (set_trigger_complete for dict keys).

Uses the verification harness (vf.sim: real Scheduler objects, single-stepped
main loop, virtual job cluster) because a stop/restart needs a scheduler.
Run: cd /verif && PYTHONPATH=/verif:/repo /venv/bin/python \
         findings/C19_custom_output_lost_on_restart.py
"""
import os
import shutil
import sqlite3
import sys
import tempfile

scr = tempfile.mkdtemp(prefix='vf-finding-')
os.environ['HOME'] = scr + '/home'
os.makedirs(os.environ['HOME'])
os.environ['CYLC_CONF_PATH'] = scr + '/conf'
os.chdir(scr)
sys.path[:0] = [os.path.dirname(os.path.dirname(os.path.abspath(__file__))),
                os.environ.get('VF_REPO', '/repo')]

from vf import core  # noqa: E402
from vf.sim.drive import SCase, run_async  # noqa: E402


def spec_for(tasks, fcp, custom=None, retries=None):
    """Minimal harness AST (only used for job scripts / point maps); the
    workflow itself is the FLOW text below."""
    return {
        'mode': 'integer', 'icp': 1, 'fcp': fcp, 'tasks': tasks,
        'custom': custom or {}, 'retries': retries or {}, 'extra': {},
        'opt': {t: {'succ': False, 'submit': False, 'fail_required': False,
                    'custom': {}} for t in tasks},
        'sections': [{'rec': {'kind': 'P', 'step': 1, 'off': 0, 'excl': []},
                      'lines': [{'lhs': None, 'rhs': [t]} for t in tasks]}],
    }


def pool(sim):
    return {f"{t['cycle']}/{t['name']}": t for t in sim.pool_snapshot()}


def show(sim, title):
    print(title)
    for ident, t in sorted(pool(sim).items()):
        print(f"    {ident}: status={t['status']} held={bool(t['held'])} "
              f"flows={t['flows']} submit_num={t['submit_num']} "
              f"outputs={t['outputs']}")
    if not pool(sim):
        print('    (empty)')


async def fair_round(sc, only=None):
    """Everything pending returns, every job (of task `only`) takes one
    step, every message is delivered, one main-loop iteration."""
    sim = sc.sim
    for it in sim.pending_cmds():
        sim.mark_returned(it)
    for job in sorted(sim.live_jobs(), key=lambda j: j.key):
        if only is None or job.name == only:
            sim.advance(job)
    for m in list(sim.inflight):
        sim.deliver(m)
    await sc.drv.loop()


def table(sim, name):
    con = sqlite3.connect(sim.schd.workflow_db_mgr.pri_path)
    try:
        return con.execute(f'SELECT * FROM {name}').fetchall()
    finally:
        con.close()


def make_ctx():
    return core.Ctx('C19', 'quick', 1, 0, 1, scr, core.Collector('C19'))

FLOW = """
[scheduler]
    allow implicit tasks = True
[scheduling]
    cycling mode = integer
    initial cycle point = 1
    final cycle point = 1
    [[graph]]
        P1 = "a:x => b"
[runtime]
    [[root]]
        script = true
    [[a]]
        [[[outputs]]]
            x = "the x file is ready"
"""
SPEC = spec_for(['a', 'b'], 1, custom={'a': {'x': 'the x file is ready'}})
# a's job: started, "the x file is ready", then fails -> a is retained as
# failed (incomplete: succeeded is required) with x completed
CASE = {'spec': SPEC, 'schedule': [],
        'outcomes': {'1/a': [{'final': 'failed'}]}}


async def main():
    async with SCase(CASE, make_ctx(), flow_text=FLOW) as sc:
        sim = sc.sim
        for _ in range(8):
            await fair_round(sc, only='a')
        show(sim, 'pool before `cylc stop --now`:')
        before = pool(sim)['1/a']['outputs']
        await sc.drv.stop_and_wait('now')
        print('task_outputs row of 1/a:',
              [r for r in table(sim, 'task_outputs') if r[1] == 'a'])
        await sc.drv.restart()
        show(sim, 'pool after restart:')
        after = pool(sim)['1/a']['outputs']
    return before, after


before, after = run_async(main())
shutil.rmtree(scr, ignore_errors=True)
if before != after:
    print(f'NOT RESTORED: 1/a completed outputs {before} -> {after}')
    sys.exit(1)
