"""C20: a scheduler killed during its first main-loop iteration restarts with an empty pool.

Scheduler.configure() loads the initial pool and commits workflow
parameters, task_states and task_outputs rows, but the task_pool table is
written only by put_task_pool() inside the main loop (update_data_structure),
i.e. by the commit at the end of the FIRST iteration.  A scheduler killed
before that commit leaves a database with an empty task_pool; on restart the
pool is empty ("This workflow already ran to completion") and nothing ever
runs.
Contradicts C20: "a restart from the database still runs every task instance
that an uninterrupted run would run".

How to run:  PYTHONPATH=/verif:/repo /venv/bin/python findings/C20_empty_task_pool_before_first_iteration_commit.py

This reproduction drives the REAL cylc Scheduler with the stepped-scheduler
harness of the verification framework (vf.sim engine + vf/props/c20.py): a
plain script is impractical because the scheduler has to be killed at one
exact database statement / main-loop position.  Every scheduler incarnation
below runs in its own forked child process and "killed" means
os._exit(137) in that child (no shutdown code, no commit, open transaction
abandoned); jobs are scripted on a virtual cluster; the next incarnation is a
new Scheduler object in a new process on the same run directory.
Candidate minimal fix: call workflow_db_mgr.put_task_pool(self.pool) before the process_workflow_db_queue() at the end of Scheduler.configure().
"""
import json
import os
import sys

sys.path[:0] = [os.environ.get('VF_ROOT', '/verif'),
                os.environ.get('VF_REPO', '/repo')]
import vf.props.c20 as c20  # noqa: E402

# kills = [[class index into c20.KILL_CLASSES, n-th point of that class,
#           effect number of a second kill in the restarted scheduler (0 =
#           none), job progress while down (0 none / 1 one step / 2 to end)]]
CASE = json.loads(r'''{"spec": {"mode": "integer", "icp": 1, "fcp": 1, "retries": {}, "extra": {}, "custom": {}, "tasks": ["a"], "opt": {"a": {"succ": false, "submit": false, "fail_required": false, "custom": {}}}, "sections": [{"rec": {"kind": "R1", "at": 1, "form": 0}, "lines": [{"lhs": null, "rhs": ["a"]}]}]}, "outcomes": {}, "ret_delays": [], "kills": [[11, 1, 0, 0]]}''')

if __name__ == '__main__':
    res = c20.explain(CASE)
    want = 'C20:instance-never-run-after-crash-restart:killed-before-first-task-pool-commit'
    ok = any(v.sig == want for v in res.violations)
    print()
    print('REPRODUCED' if ok else 'NOT REPRODUCED', want)
    sys.exit(0 if ok else 1)
