"""C19 finding (REPAIRED in /repo by commit 929f888 - this script now exits 0;
kept as a regression reproduction, mutant `revert-stop-task-fix` in
tools/mutants_C19.json): the stop task (`cylc stop <workflow>//<cycle>/<task>`)
was forgotten by the second restart.

Before the repair:

Scheduler.configure(), on a restart:

    self._load_pool_from_db()
    if self.restored_stop_task_id is not None:
        self.pool.set_stop_task(self.restored_stop_task_id)   # (1)
    ...
    self.workflow_db_mgr.put_workflow_params(self)            # (2)

(1) restores the stop task in memory and queues
`workflow_params.stop_task = <id>`; (2) then queues "DELETE FROM
workflow_params" plus a full re-insert that contains
`{"key": "stop_task", "value": schd.stop_task}` - and `Scheduler.stop_task`
is a class attribute that is never assigned (always None).  Deletes run
first, then the inserts in order, so the None written by (2) replaces the id
written by (1): from the first restart on the stop task lives in memory
only, and a second stop + restart comes up without it (the workflow then
runs past the task it was told to stop after).

C19: a restart restores the stop task, for any number of successive
restarts.

Candidate fix: in put_workflow_params() write `schd.pool.stop_task_id`
(when the pool exists) instead of `schd.stop_task`, or call
put_workflow_params() before restoring the stop task.

Uses the verification harness (vf.sim: real Scheduler objects, single-stepped
main loop, virtual job cluster) because a stop/restart needs a scheduler.
Run: cd /verif && PYTHONPATH=/verif:/repo /venv/bin/python \
         findings/C19_stop_task_lost_on_second_restart.py
"""
import os
import shutil
import sqlite3
import sys
import tempfile

scr = tempfile.mkdtemp(prefix='vf-finding-')
os.environ['HOME'] = scr + '/home'
os.makedirs(os.environ['HOME'])
os.environ['CYLC_CONF_PATH'] = scr + '/conf'
os.chdir(scr)
sys.path[:0] = [os.path.dirname(os.path.dirname(os.path.abspath(__file__))),
                os.environ.get('VF_REPO', '/repo')]

from vf import core  # noqa: E402
from vf.sim.drive import SCase, run_async  # noqa: E402


def spec_for(tasks, fcp, custom=None, retries=None):
    """Minimal harness AST (only used for job scripts / point maps); the
    workflow itself is the FLOW text below."""
    return {
        'mode': 'integer', 'icp': 1, 'fcp': fcp, 'tasks': tasks,
        'custom': custom or {}, 'retries': retries or {}, 'extra': {},
        'opt': {t: {'succ': False, 'submit': False, 'fail_required': False,
                    'custom': {}} for t in tasks},
        'sections': [{'rec': {'kind': 'P', 'step': 1, 'off': 0, 'excl': []},
                      'lines': [{'lhs': None, 'rhs': [t]} for t in tasks]}],
    }


def pool(sim):
    return {f"{t['cycle']}/{t['name']}": t for t in sim.pool_snapshot()}


def show(sim, title):
    print(title)
    for ident, t in sorted(pool(sim).items()):
        print(f"    {ident}: status={t['status']} held={bool(t['held'])} "
              f"flows={t['flows']} submit_num={t['submit_num']} "
              f"outputs={t['outputs']}")
    if not pool(sim):
        print('    (empty)')


async def fair_round(sc, only=None):
    """Everything pending returns, every job (of task `only`) takes one
    step, every message is delivered, one main-loop iteration."""
    sim = sc.sim
    for it in sim.pending_cmds():
        sim.mark_returned(it)
    for job in sorted(sim.live_jobs(), key=lambda j: j.key):
        if only is None or job.name == only:
            sim.advance(job)
    for m in list(sim.inflight):
        sim.deliver(m)
    await sc.drv.loop()


def table(sim, name):
    con = sqlite3.connect(sim.schd.workflow_db_mgr.pri_path)
    try:
        return con.execute(f'SELECT * FROM {name}').fetchall()
    finally:
        con.close()


def make_ctx():
    return core.Ctx('C19', 'quick', 1, 0, 1, scr, core.Collector('C19'))

FLOW = """
[scheduler]
    allow implicit tasks = True
[scheduling]
    cycling mode = integer
    initial cycle point = 1
    final cycle point = 5
    [[graph]]
        P1 = "a[-P1] => a"
[runtime]
    [[root]]
        script = true
"""
SPEC = spec_for(['a'], 5)
CASE = {'spec': SPEC, 'schedule': [], 'outcomes': {}}


def stop_task_in_db(sim):
    return [v for k, v in table(sim, 'workflow_params') if k == 'stop_task']


async def main():
    from cylc.flow import commands
    seen = []
    async with SCase(CASE, make_ctx(), flow_text=FLOW) as sc:
        sim = sc.sim
        await commands.run_cmd(commands.stop(sim.schd, None, task='3/a'))
        await sc.drv.loop()
        print('stop task set by command      :', sim.schd.pool.stop_task_id,
              ' DB:', stop_task_in_db(sim))
        seen.append(sim.schd.pool.stop_task_id)
        for n in (1, 2):
            await sc.drv.stop_and_wait('now')
            await sc.drv.restart()
            await sc.drv.loop()
            print(f'after restart #{n}              :',
                  sim.schd.pool.stop_task_id, ' DB:', stop_task_in_db(sim))
            seen.append(sim.schd.pool.stop_task_id)
    return seen


seen = run_async(main())
shutil.rmtree(scr, ignore_errors=True)
if seen != ['3/a'] * 3:
    print('STOP TASK NOT RESTORED: in memory after start / restart 1 / '
          f'restart 2 = {seen}')
    sys.exit(1)
