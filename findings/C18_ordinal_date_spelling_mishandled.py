"""C18 finding: cycle points written as ordinal dates (CCYYDDD) are
mishandled when a zone shift or an interval carries them across a year
boundary of a leap year; the same instants written as calendar dates are
handled correctly.  Root cause is in the metomi.isodatetime TimePoint
arithmetic that cylc.flow.cycling.iso8601 delegates to (ordinal-date form is
not converted to calendar-date form first), i.e. outside cylc-flow's own
sources, which is why it is recorded rather than repaired.

    PYTHONPATH=/repo /venv/bin/python findings/C18_ordinal_date_spelling_mishandled.py
"""
from cylc.flow.cycling import iso8601
from cylc.flow.cycling.iso8601 import ISO8601Point as P, ISO8601Interval as I

iso8601.init(time_zone='Z')
bad = 0
# 1. standardise does not preserve the value
a = P('2000366T2300-11').standardise()      # = 2000-12-31T23:00-11 = 2001-01-01T10:00Z
b = P('20001231T2300-11').standardise()
print('standardise ordinal :', a, '  calendar:', b)
bad += a != b
# 2. (p + i) - i != p
p = P('2000001T0000Z')
i = I('P59W')
q = p + i
print('p+i ordinal        :', q, '  calendar:', P('20000101T0000Z') + i)
print('(p+i)-i             :', q - i, '  expected 20000101T0000Z')
bad += (q - i) != P('20000101T0000Z')
print('MISHANDLED' if bad else 'ok')
