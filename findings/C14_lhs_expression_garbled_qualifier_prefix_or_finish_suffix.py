r"""C14: a conditional left-hand side is garbled when (a) one qualifier of a
task is a prefix of another qualifier of the same task up to a '-', or (b) two
tasks have ':finish' and one name ends the other.

(a) GraphParser._proc_dep_pair replaces alternative qualifier spellings with
    re.sub(r'<name-start>NAME:QUAL\b(?![\[:])', 'NAME:<standard>', expr).
    `\b` also matches before '-', which is legal inside output names, so
    standardising `foo:submit` also rewrites `foo:submit-fail`, `a:fail` also
    rewrites the custom output `a:fail-safe`, `a:start` rewrites `a:start-1`.
(b) GraphParser._compute_triggers expands ':finished' with
    expr.replace('a:finished', '(a:succeeded|a:failed)'), which also hits the
    tail of 'aa:finished' / 'x-a:finished'.

Only expressions kept whole (containing | or parentheses) are affected.  The
recorded expression then names outputs that do not exist; the workflow
validates and the prerequisite raises TriggerExpressionError when evaluated.

(The related task-NAME prefix case `a-b | a => c` was fixed in 86a328e and is
shown here as a control.)

Run: PYTHONPATH=/repo /venv/bin/python findings/C14_lhs_expression_garbled_qualifier_prefix_or_finish_suffix.py
"""
from cylc.flow.graph_parser import GraphParser

bad = 0
for label, graph, want in [
    ('control', 'foo-bar | foo => x', 'foo-bar:succeeded|foo:succeeded'),
    ('(a)', 'foo:submit? | foo:submit-fail? => x',
     'foo:submitted|foo:submit-failed'),
    ('(a)', 'a:fail-safe | a:fail => x', 'a:fail-safe|a:failed'),
    ('(a)', '(foo:start | foo:start-1) => x', '(foo:started|foo:start-1)'),
    ('(b)', 'a:finish | aa:finish => x',
     '(a:succeeded|a:failed)|(aa:succeeded|aa:failed)'),
]:
    gp = GraphParser()
    gp.parse_graph(graph)
    (expr, (trigs, _)), = gp.triggers['x'].items()
    ok = expr == want
    if label != 'control':
        bad += not ok
    print(f'{label} {graph!r}\n   parsed expression : {expr}\n   trigger list'
          f'      : {trigs}\n   expected          : {want}\n   '
          f'{"ok" if ok else "WRONG: not the expression that was written"}')

# the consequence at run time
try:
    from cylc.flow.prerequisite import Prerequisite
    from cylc.flow.cycling.integer import IntegerPoint
    gp = GraphParser()
    gp.parse_graph('foo:submit? | foo:submit-fail? => x')
    expr = list(gp.triggers['x'])[0]
    pre = Prerequisite(IntegerPoint('1'))
    pre[('1', 'foo', 'submitted')] = False
    pre[('1', 'foo', 'submit-failed')] = False
    # what Dependency.get_expression builds from the garbled text
    pre.set_conditional_expr(
        expr.replace('foo:submitted', '1/foo:submitted', 1))
    try:
        pre.is_satisfied()
    except Exception as exc:
        print('evaluating the prerequisite:', type(exc).__name__)
except Exception as exc:   # API drift: the parser output above is the finding
    print('(run-time illustration skipped:', repr(exc), ')')

print('DEFECT REPRODUCED' if bad else 'not reproduced')
