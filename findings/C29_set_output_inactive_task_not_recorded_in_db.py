"""C29 finding: `cylc set --out=X` on a finished (inactive) task does not
record X in the task_outputs table when the set of active flows differs from
the flow set the task ran in.

    R1 = "a? => b \n a:fail? => d \n c"

  1. 1/a runs and succeeds in flow 1 (task_outputs row: flow_nums [1]).
  2. `cylc trigger --flow=2 1/c` merges flow 2 into the still active 1/c:
     the active flows are now {1, 2}.
  3. `cylc set --out=failed 1/a` (default flow option = all active flows):
     a transient proxy of 1/a with flow_nums {1, 2} is loaded (outputs of the
     overlapping row [1] included), `failed` is completed on it, 1/d is
     spawned with 1/a:failed satisfied - but
     WorkflowDatabaseManager.put_update_task_outputs() issues
     UPDATE ... WHERE flow_nums == "[1,2]", which matches no row
     (_load_historical_outputs adds a row for the new flow set only when NO
     row overlaps).  The completed output exists nowhere after the command:
     the proxy is transient, the table still says submitted/started/succeeded.

Statement C29: setting outputs "marks those outputs ... complete" (observed
at "pool and DB after the command"); for an inactive task the DB is the only
place.  Consequence: a later `cylc set`, a restart, or flow bookkeeping sees
1/a without `failed` although its child ran on it.  Candidate fix: in
_load_historical_outputs call db_add_new_flow_rows(itask) whenever no row
has exactly the proxy's flow set (or update the overlapping rows).

Drives the real Scheduler through the /verif stepped engine.  Run:
    cd /verif && PYTHONPATH=/verif:/repo /venv/bin/python \
        findings/C29_set_output_inactive_task_not_recorded_in_db.py
"""
import json
import os
import shutil
import sqlite3
import sys
import tempfile

scr = tempfile.mkdtemp(prefix='vf-finding-')
os.environ['HOME'] = scr + '/home'
os.makedirs(os.environ['HOME'])
os.environ['CYLC_CONF_PATH'] = scr + '/conf'
os.chdir(scr)
sys.path[:0] = [os.path.dirname(os.path.dirname(os.path.abspath(__file__))),
                os.environ.get('VF_REPO', '/repo')]

from vf import core  # noqa: E402
from vf.sim.drive import SCase, run_async  # noqa: E402

FLOW = '''
[scheduler]
    allow implicit tasks = True
[scheduling]
    cycling mode = integer
    initial cycle point = 1
    final cycle point = 1
    [[graph]]
        R1 = """
            a? => b
            a:fail? => d
            c
        """
[runtime]
    [[root]]
        script = true
'''
SPEC = {'mode': 'integer', 'icp': 1, 'fcp': 1,
        'tasks': ['a', 'b', 'c', 'd'], 'custom': {}, 'opt': {},
        'retries': {}, 'extra': {}, 'sections': []}


def rows(schd):
    con = sqlite3.connect(
        f'file:{schd.workflow_db_mgr.pri_path}?mode=ro', uri=True)
    try:
        return [(f, sorted(json.loads(o))) for f, o in con.execute(
            "SELECT flow_nums, outputs FROM task_outputs "
            "WHERE cycle='1' AND name='a'")]
    finally:
        con.close()


async def main():
    from cylc.flow import commands
    ctx = core.Ctx('C29', 'quick', 1, 0, 1, scr, core.Collector('C29'))
    case = {'spec': SPEC, 'outcomes': {}, 'schedule': []}
    async with SCase(case, ctx, flow_text=FLOW) as sc:
        assert not sc.rejected, sc.rejected
        sim, drv, schd = sc.sim, sc.drv, sc.sim.schd
        # only 1/a's job makes progress: 1/a succeeds, 1/b and 1/c stay active
        for _ in range(8):
            for it in sim.pending_cmds():
                sim.mark_returned(it)
            for job in sim.live_jobs():
                if job.name == 'a':
                    sim.advance(job)
            for msg in list(sim.inflight):
                sim.deliver(msg)
            await drv.loop()
        assert schd.pool._get_task_by_id('1/a') is None
        print('task_outputs rows of 1/a after its job:', rows(schd))
        await commands.run_cmd(commands.force_trigger_tasks(
            schd, ['1/c'], ['2']))
        print('pool:', [(t.identity, t.state.status, sorted(t.flow_nums))
                        for t in schd.pool.get_tasks()])
        await commands.run_cmd(commands.set_prereqs_and_outputs(
            schd, ['1/a'], [], outputs=['failed'], prerequisites=None))
        await drv.loop()
        d = schd.pool._get_task_by_id('1/d')
        print('after `cylc set --out=failed 1/a`: 1/d in pool:',
              d is not None, 'flows',
              sorted(d.flow_nums) if d is not None else None)
        after = rows(schd)
        print('task_outputs rows of 1/a now:', after)
        bad = d is not None and not any('failed' in o for _f, o in after)
        print('DEFECT REPRODUCED: the child of 1/a:failed was spawned but '
              'the output is recorded nowhere' if bad else 'not reproduced')
        return bad


try:
    ok = run_async(main())
finally:
    shutil.rmtree(scr, ignore_errors=True)
sys.exit(0 if ok else 1)
