"""C27 finding: a *held* task that is running when a reload removes its
definition is dropped from the task pool (its job carries on unobserved).

Statement (C27): "Tasks whose definitions were removed are dropped only if
they have not started."  TaskPool._reload_taskdefs docstring: "Orphaned tasks
(whose definitions were removed from the workflow): remove if not active
yet; if active, leave them but prevent them from spawning children".  Code:

    if (itask.state(TASK_STATUS_WAITING)
            or itask.state.is_held
            or itask.state.is_queued):
        self.remove(itask, 'task definition removed')

`cylc hold` sets is_held on active tasks too (TaskPool.hold_active_task, so
that a retry would be held), hence a held *running* / *submitted* / finished-
incomplete task satisfies the condition and is removed; an identical task
that is not held is kept.

History (real Scheduler on the virtual cluster of /verif/vf/sim; P1 = a, b
over cycles 1..2):  run until 1/a and 2/a are running; `cylc hold 1/a`;
reload a definition without task a.

Run: cd /verif && PYTHONPATH=/verif:/repo /venv/bin/python \
         findings/C27_held_active_orphan_dropped_on_reload.py

Candidate minimal fix: test `itask.state(TASK_STATUS_WAITING)` only (queued
tasks are waiting anyway; held says nothing about having started).
"""
from _c25_c27_common import (
    SCase, cleanup, ctx_for, fair_round, reload_with, run_async, spec_of)


async def main():
    from cylc.flow import commands
    case = {'spec': spec_of(['a', 'b'], fcp=2), 'outcomes': {},
            'schedule': []}
    async with SCase(case, ctx_for('C27')) as sc:
        assert not sc.rejected, sc.rejected
        drv, sim = sc.drv, sc.sim
        for _ in range(3):
            await fair_round(drv)

        def pool():
            return {t.identity: (t.state.status, t.state.is_held)
                    for t in sim.schd.pool.get_tasks()}

        await commands.run_cmd(commands.hold(sim.schd, ['1/a']))
        before = pool()
        print('before reload:', before)
        await reload_with(sim, spec_of(['b'], fcp=2))
        after = pool()
        print('after reload :', after)
        job = sim.jobs[('1', 'a', 1)]
        print('job 1/a/01 still live on the platform:', job.live)
        assert before['1/a'] == ('running', True)
        assert before['2/a'] == ('running', False)
        if '1/a' not in after and '2/a' in after:
            print('DEFECT: 1/a was running (and held) when its definition '
                  'was removed and was dropped from the pool; 2/a, running '
                  'and not held, was kept')
        else:
            print('ok: active orphans kept')


if __name__ == '__main__':
    try:
        run_async(main())
    finally:
        cleanup()
