"""C43 finding: a stop task survives one restart but not two.

`cylc stop //3/a` stores stop_task = 3/a in workflow_params, and a restart
restores it (Scheduler._set_workflow_params -> restored_stop_task_id ->
TaskPool.set_stop_task): tests/functional/restart/45-stop-task.t.  But every
start also runs WorkflowDatabaseManager.put_workflow_params(schd), which
deletes all rows of workflow_params and re-inserts them with

    {"key": self.KEY_STOP_TASK, "value": schd.stop_task},

and Scheduler.stop_task is a class attribute (`stop_task: Optional[str] =
None`) that nothing ever assigns.  The row queued just before by
set_stop_task(restored id) is overwritten in the same transaction.  So after
the first restart the stop task is still in force in memory but NULL in the
database, and after a second restart it is gone: the task succeeds and the
workflow carries on to the final cycle point.

C43: "With a stop task, the workflow stops after that task succeeds"
(quantified over stop requests followed by restarts).

Candidate minimal fix: in put_workflow_params write
`schd.pool.stop_task_id if hasattr(schd, 'pool') else schd.restored_stop_task_id`
(or drop the stop_task row from the bulk rewrite, as is done for holdcp).

Drives the real scheduler through the /verif engine-S harness (vf.sim): a
plain script would need a running scheduler and job runner.  Run:
    cd /verif && PYTHONPATH=/verif:/repo /venv/bin/python \
        findings/C43_stop_task_lost_at_second_restart.py
"""
import os
import shutil
import sqlite3
import sys
import tempfile

scr = tempfile.mkdtemp(prefix='vf-finding-')
os.environ['HOME'] = scr + '/home'
os.makedirs(os.environ['HOME'])
os.environ['CYLC_CONF_PATH'] = scr + '/conf'
os.chdir(scr)
sys.path[:0] = [os.path.dirname(os.path.dirname(os.path.abspath(__file__))),
                os.environ.get('VF_REPO', '/repo')]

from vf import core  # noqa: E402
from vf.sim.drive import SCase, run_async  # noqa: E402

OPT = {'succ': False, 'submit': False, 'fail_required': False, 'custom': {}}
SPEC = {      # P1 = "a[-P1] => a", cycles 1..4
    'mode': 'integer', 'icp': 1, 'fcp': 4, 'tasks': ['a'], 'custom': {},
    'opt': {'a': OPT}, 'retries': {}, 'extra': {},
    'sections': [{'rec': {'kind': 'P', 'step': 1, 'off': 0, 'excl': []},
                  'lines': [{'lhs': {'t': 'a', 'off': -1, 'abs': None,
                                     'out': 'succeeded', 'implicit': True,
                                     'longform': False}, 'rhs': ['a']}]}],
}
CASE = {'spec': SPEC, 'outcomes': {}, 'schedule': []}


async def main():
    from cylc.flow import commands
    ctx = core.Ctx('C43', 'quick', 1, 0, 1, scr, core.Collector('C43'))
    async with SCase(CASE, ctx) as sc:
        assert not sc.rejected, sc.rejected
        drv, sim = sc.drv, sc.sim

        async def cmd(gen):
            """run a command as Scheduler.process_command_queue does"""
            await commands.run_cmd(gen)
            sim.schd.is_updated = True

        def db_stop_task():
            con = sqlite3.connect(
                f'file:{sim.run_dir}/.service/db?mode=ro', uri=True)
            try:
                return dict(con.execute(
                    'SELECT key, value FROM workflow_params'))['stop_task']
            finally:
                con.close()

        await cmd(commands.stop(sim.schd, None, task='3/a'))
        await drv.loop()
        print('stop task set      : scheduler', sim.schd.pool.stop_task_id,
              '| workflow_params.stop_task', db_stop_task())
        for i in (1, 2):
            await drv.cmd_restart(0)          # stop --now, restart
            await drv.loop()
            print(f'after restart {i}    : scheduler',
                  sim.schd.pool.stop_task_id,
                  '| workflow_params.stop_task', db_stop_task())
        lost = sim.schd.pool.stop_task_id is None
        shut, _quiet = await sc.drain()
        jobs = [f'{c}/{n}/{sn:02d}' for c, n, sn in sim.journal]
        print('run to the end     : jobs submitted', jobs,
              '| shutdown reason', sim.shutdown_reason)
        return lost, ('4', 'a', 1) in sim.journal


try:
    lost, ran_past = run_async(main())
finally:
    shutil.rmtree(scr, ignore_errors=True)
assert lost and ran_past, 'defect not present'
print('DEFECT: stop task 3/a was lost at the second restart; 3/a succeeded '
      'and the workflow went on to run 4/a')
