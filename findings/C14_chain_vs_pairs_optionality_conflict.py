"""C14: chain form and pair form of the same graph disagree (accept vs reject,
and different output optionality) when a plain task name is in the middle of
one chain and at the end of another.

GraphParser infers ':succeeded' (required) for a plain name on the right of a
pair unless the name is at the end of a chain.  "End of chain" is kept as one
set of node strings for the whole graph string (self.end_of_chain_nodes), not
per pair.  So in

    a => b => c        # b mid-chain: b:succeeded is required (b => c)
    x => b             # ... but this line makes 'b' an end-of-chain node
    b:fail? => y

no pair infers b:succeeded at all: the graph is accepted with b:failed
optional and b:succeeded unset (TaskDef: success NOT required).  Written as
pairs, 'b => c' starts a line, b:succeeded is inferred as required, and the
conflict with 'b:fail?' is reported.

Run: PYTHONPATH=/repo /venv/bin/python findings/C14_chain_vs_pairs_optionality_conflict.py
"""
from cylc.flow.graph_parser import GraphParser
from cylc.flow.exceptions import GraphParseError

chain = 'a => b => c\nx => b\nb:fail? => y'
pairs = 'a => b\nb => c\nx => b\nb:fail? => y'
out = {}
for name, graph in [('chain form', chain), ('pair form', pairs)]:
    gp = GraphParser()
    try:
        gp.parse_graph(graph)
        out[name] = {k: v[0] for k, v in gp.task_output_opt.items()
                     if k[0] == 'b'}
        print(f'{name}: accepted; optional flags for b: {out[name]}')
    except GraphParseError as exc:
        out[name] = 'GraphParseError'
        print(f'{name}: GraphParseError: {exc}')
print('DEFECT REPRODUCED' if out['chain form'] != out['pair form']
      else 'not reproduced')
