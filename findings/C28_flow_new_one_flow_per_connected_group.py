"""C28 finding: `cylc trigger --flow=new` on tasks that are not connected to
each other inside the triggered set starts ONE NEW FLOW PER CONNECTED GROUP
instead of one new flow for the command; a member that is downstream of
another group then runs twice for one trigger.

Graph `x => y => z` (one cycle).  1/x and 1/y have run in flow 1, 1/z is
waiting (it was held meanwhile so that the workflow stays up, and is released
just before the trigger).

  cylc trigger --flow=new //1/x //1/z

  * 1/y is not in the set, so 1/x and 1/z are two separate groups
    (commands.force_trigger_tasks splits the IDs with get_connected_groups
    and calls _force_trigger_tasks once per group);
  * each call does flow_mgr.cli_to_flow_nums(['new']) -> FlowMgr.get_flow()
    with no number -> a fresh flow number every time: 1/x is triggered in
    flow 2 and 1/z in flow 3 (or the other way round);
  * 1/z has only off-group prerequisites: it runs at once (correct), in
    flows 1,3;
  * flow 2 runs on from 1/x: 1/y, then 1/z AGAIN - for flow 2, 1/z has not
    run yet.  One trigger command, 1/z submitted twice: "no member runs more
    than once per trigger" is violated.  With a single new flow the second
    spawn of 1/z is refused (already ran in that flow).

Fix: /tmp/tri/C28-flow-new-one-flow-per-command.patch (allocate the new flow
number once in force_trigger_tasks, before the groups are triggered).

Drives the real Scheduler through the /verif stepped engine (vf.sim).  Run:
    cd /verif && PYTHONPATH=/verif:/repo /venv/bin/python \
        findings/C28_flow_new_one_flow_per_connected_group.py
(VF_REPO=<patched tree> to see it pass.)
"""
import os
import shutil
import sys
import tempfile

scr = tempfile.mkdtemp(prefix='vf-finding-')
os.environ['HOME'] = scr + '/home'
os.makedirs(os.environ['HOME'])
os.environ['CYLC_CONF_PATH'] = scr + '/conf'
os.chdir(scr)
sys.path[:0] = [os.path.dirname(os.path.dirname(os.path.abspath(__file__))),
                os.environ.get('VF_REPO', '/repo')]

from vf import core  # noqa: E402
from vf.sim.drive import SCase, run_async  # noqa: E402


def atom(t):
    return {'t': t, 'off': None, 'abs': None, 'out': 'succeeded',
            'implicit': True, 'longform': False}


SPEC = {
    'mode': 'integer', 'icp': 1, 'fcp': 1, 'tasks': ['x', 'y', 'z'],
    'custom': {},
    'opt': {t: {'succ': False, 'submit': False, 'fail_required': False,
                'custom': {}} for t in ('x', 'y', 'z')},
    'retries': {}, 'extra': {},
    'sections': [{'rec': {'kind': 'R1', 'at': 1, 'form': 0},
                  'lines': [{'lhs': atom('x'), 'rhs': ['y']},
                            {'lhs': atom('y'), 'rhs': ['z']}]}],
}
CASE = {'spec': SPEC, 'outcomes': {}, 'schedule': []}


async def fair_rounds(sc, n):
    sim = sc.sim
    for _ in range(n):
        for it in sim.pending_cmds():
            sim.mark_returned(it)
        for job in sorted(sim.live_jobs(), key=lambda j: j.key):
            sim.advance(job)
        for msg in list(sim.inflight):
            sim.deliver(msg)
        await sc.drv.loop()


async def main():
    from cylc.flow import commands
    ctx = core.Ctx('C28', 'quick', 1, 0, 1, scr, core.Collector('C28'))
    async with SCase(CASE, ctx) as sc:
        assert not sc.rejected, sc.rejected
        sim = sc.sim
        schd = sim.schd
        print(sc.drv.flow_text)
        # keep the scheduler up once flow 1 is through
        await commands.run_cmd(commands.hold(schd, ['1/z']))
        await fair_rounds(sc, 12)
        print('flow 1 so far, jobs submitted:', sim.journal)
        n0 = len(sim.journal)
        await commands.run_cmd(commands.release(schd, ['1/z']))
        await commands.run_cmd(commands.force_trigger_tasks(
            schd, ['1/x', '1/z'], ['new']))
        print('flows after `trigger --flow=new 1/x 1/z`:',
              sorted(schd.pool.flow_mgr.flows),
              {t.identity: sorted(t.flow_nums)
               for t in schd.pool.get_tasks()})
        await sc.drain()
        new = sim.journal[n0:]
        print('jobs submitted after the trigger:', new)
        nz = len([j for j in new if j[1] == 'z'])
        # (1/z held in flow 1 has not run before the trigger: it is an active
        # waiting member, triggered once => exactly one job expected)
        bad = nz > 1
        print(f'DEFECT REPRODUCED: 1/z submitted {nz} times for one trigger'
              if bad else f'not reproduced: 1/z submitted {nz} time(s)')
        return bad


try:
    bad = run_async(main())
finally:
    shutil.rmtree(scr, ignore_errors=True)
sys.exit(1 if bad else 0)
