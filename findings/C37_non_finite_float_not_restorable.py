r"""C37: a template variable whose value contains a non-finite float (e.g.
`-s 'X=1e999'`, `-s 'L=[1, -1e999]'`, `-s 'Z=1e999j'`) is accepted at first
start but makes every restart fail.

Run:  PYTHONPATH=/repo /venv/bin/python findings/C37_non_finite_float_not_restorable.py

load_template_vars -> ast.literal_eval('1e999') = inf  (accepted, usable in Jinja2)
WorkflowDatabaseManager.put_workflow_template_vars stores repr(value) = 'inf'
Scheduler._load_template_vars -> eval_var('inf') -> ast.literal_eval('inf')
  -> ValueError (a Name, not a literal) -> InputError: the restart aborts.
"""
import os
import tempfile
from functools import partial
from types import SimpleNamespace

from cylc.flow.scheduler import Scheduler
from cylc.flow.templatevars import load_template_vars
from cylc.flow.workflow_db_mgr import WorkflowDatabaseManager

d = tempfile.mkdtemp()
pri_d, pub_d = os.path.join(d, '.service'), os.path.join(d, 'log')
os.makedirs(pri_d)
os.makedirs(pub_d)

# first start:  cylc play -s 'X=1e999' -s 'OK=1.5' wf
tvars = load_template_vars(['X=1e999', 'OK=1.5'])
print('accepted at first start:', tvars)
mgr = WorkflowDatabaseManager(pri_d, pub_d)
mgr.on_workflow_start(is_restart=False)
mgr.put_workflow_template_vars(tvars)      # scheduler.py: Scheduler.configure
mgr.process_queued_ops()
mgr.on_workflow_shutdown()

# restart: Scheduler.load_workflow_params_and_tmpl_vars
mgr = WorkflowDatabaseManager(pri_d, pub_d)
mgr.on_workflow_start(is_restart=True)
sched = SimpleNamespace(template_vars={})
try:
    with mgr.get_pri_dao() as dao:
        dao.select_workflow_template_vars(
            lambda i, row: print('stored row:', row))
        dao.select_workflow_template_vars(
            partial(Scheduler._load_template_vars, sched))
    print('restored:', sched.template_vars)
    print('not reproduced')
except Exception as exc:
    print(f'restart fails: {type(exc).__name__}: {exc}')
    print('restored so far:', sched.template_vars)
    print('DEFECT REPRODUCED')
finally:
    mgr.on_workflow_shutdown()
