r"""C36: the processed flow file does not parse back to the same configuration
when a line that contains a '#' ends in "backslash + trailing whitespace".

Run:  PYTHONPATH=/repo /venv/bin/python findings/C36_rstrip_exposes_trailing_backslash.py

cylc/flow/parsec/fileparse.py: _concatenate() only treats a line as a
continuation when the backslash is the very last character, and the
"whitespace after the line continuation character" error is deliberately not
raised when a '#' precedes the backslash (_BAD_CONTINUATION_TRAILING_WHITESPACE
= ^([^#\n]+)?\\\s+$).  So "# comment \ " / "b = 1 # note \ " are kept as they
are by the first parse.  read_and_proc() then returns [fl.rstrip() ...]:
the trailing whitespace goes, the line now ENDS in a backslash, and that is
what parse() writes to the processed file.  Parsing the processed file joins
the line with the following one (or drops the backslash on the last line).
"""
import os
import tempfile

from cylc.flow.parsec.fileparse import parse


def tolist(d):
    return [(k, tolist(v) if isinstance(v, dict) else v) for k, v in d.items()]


SRC = (
    "[runtime]\n"
    "    [[foo]]\n"
    "        # script = old \\ \n"       # commented-out continuation, "\ " at the end
    "        script = echo hello\n"
    "        pre-script = true # note \\ \n"
    "        post-script = echo bye\n"
)

d = tempfile.mkdtemp()
os.makedirs(os.path.join(d, 'log', 'config'))
src = os.path.join(d, 'flow.cylc')
out = os.path.join(d, 'log', 'config', 'flow-processed.cylc')
with open(src, 'w') as f:
    f.write(SRC)
cwd = os.getcwd()
first = tolist(parse(src, out))
os.chdir(cwd)
second = tolist(parse(out))
os.chdir(cwd)
print('source:\n' + SRC)
print('processed file:\n' + open(out).read())
print('parse(source)    =', first)
print('parse(processed) =', second)
print('DEFECT REPRODUCED: configurations differ' if first != second
      else 'not reproduced')
