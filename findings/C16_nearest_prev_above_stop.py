"""C16: get_nearest_prev_point is None for on-step points beyond the stop point.

IntegerSequence.get_nearest_prev_point: "Return the largest point < some
arbitrary point".  If the point is "on-sequence disregarding bounds" the
method delegates to get_prev_point, which returns point - step only if that is
in bounds; so for a point two or more steps above the stop point the answer
is None although the sequence has points below it (off-step points work).
Used by TaskState for the previous-instance prerequisite of sequential tasks
with the task's own point, which may come from another of its sequences.
"""
from cylc.flow.cycling.integer import IntegerSequence, IntegerPoint

bad = 0
seq = IntegerSequence('R2/0/P2', '0', '9')        # {0, 2}
for p, want in [(3, 2), (4, 2), (5, 2), (6, 2), (7, 2), (8, 2)]:
    got = seq.get_nearest_prev_point(IntegerPoint(str(p)))
    ok = got is not None and int(got) == want
    bad += not ok
    print(f"IntegerSequence('R2/0/P2', '0', '9').get_nearest_prev_point({p}):"
          f' expected {want}, got {got}', 'OK' if ok else '<-- WRONG')
print('DEFECT REPRODUCED' if bad else 'not reproduced')
