"""C17: recurrences whose start is a truncated ordinal date or week date
(implied yearly step), or is written in another time zone than the cycle
point time zone (month/year step): stepping from a re-parsed point leaves
the iteration.

Run: PYTHONPATH=/repo /venv/bin/python findings/C17_ordinal_week_start_step_leaves_iteration.py

`R/-100T12` (day 100 of each year) parsed against 20000131T00Z gives a
TimeRecurrence whose start TimePoint is an *ordinal* date; iterating it adds
P1Y to the ordinal date: day 100 of 2000 (9 Apr), day 100 of 2001 (10 Apr)...
ISO8601Sequence.get_next_point_on_sequence / get_prev_point re-parse the
point's calendar-date string before stepping (`recurrence.get_next(
point_parse(point.value))`), i.e. 20000409 + P1Y = 20010409, which is not a
point of the iteration.  The cached-walk branches of get_next_point and
is_on_sequence are built on get_next_point_on_sequence, so their answers
depend on which queries were made before.  Same for week dates (W021T00),
and for a start point in another time zone: R4/20200131T00+01/P1M iterates
in +01 (31 Jan 00:00+01, 29 Feb 00:00+01 = 28 Feb 23:00Z) while cylc steps
the UTC string (30 Jan 23:00Z + P1M = 29 Feb 23:00Z).

Candidate fix: normalise recurrence start/end points to calendar dates when
the recurrence is built (time_parser.parse_recurrence), so that iteration and
re-parsed stepping agree.
"""
from cylc.flow.cycling import iso8601
from cylc.flow.cycling.iso8601 import ISO8601Point, ISO8601Sequence

iso8601.init(time_zone='Z', cycling_mode='gregorian')
bad = 0
for expr in ('R/-100T12', 'R/W021T00', 'R4/20200131T00+01/P1M'):
    def new():
        return ISO8601Sequence(expr, '20000131T00Z', None)
    seq = new()
    raw = []
    for p in seq.recurrence:
        raw.append(str(p))
        if len(raw) == 3:
            break
    print(expr, 'iteration:', raw)
    p0, p1 = ISO8601Point(raw[0]), ISO8601Point(raw[1])
    a = new().get_next_point(p0)
    b = new().get_next_point_on_sequence(p0)
    print('  fresh get_next_point(%s)             = %s' % (p0, a))
    print('  fresh get_next_point_on_sequence(%s) = %s   is_valid: %s' % (
        p0, b, new().is_valid(b)))
    if str(b) != raw[1]:
        print('  WRONG: expected', raw[1])
        bad += 1
    # history dependence: warm the cache with one get_next_point call
    fresh = new().get_next_point(p1)
    warm = new()
    warm.get_next_point(ISO8601Point('20000101T0000Z'))   # caches raw[0]
    c = warm.get_next_point(p1)
    print('  fresh get_next_point(%s) = %s' % (p1, fresh))
    print('  same after one earlier get_next_point query = %s' % c)
    if str(c) != str(fresh):
        print('  WRONG: the answer depends on the earlier query')
        bad += 1
raise SystemExit(1 if bad else 0)
