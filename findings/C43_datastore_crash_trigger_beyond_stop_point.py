"""C43 (scheduler crash seen by the stop-point check): triggering future
instances beyond the stop point and then raising the stop point kills the
scheduler in the data store:

    AttributeError: 'NoneType' object has no attribute 'graph_depth'
      data_store_mgr.py  _family_ascent_point_update
      <- update_family_proxies <- update_data_structure <- Scheduler._main_loop

Workflow (integer cycling 1..3):  P1 = "a[-P1] => a" and "b".
History (all commands valid and accepted):
    cylc play --stopcp=2 ; one main-loop iteration ;
    cylc trigger //2/a ; cylc trigger //3/a ; cylc stop //3 (raise the stop
    point to 3) ; run on.
All six jobs run and succeed; when the last task leaves the pool
update_family_proxies() finds, among the child tasks of a family, an id that
is in all_n_window_nodes but has no TASK_PROXIES element (tp_node None) and
the scheduler aborts instead of shutting down normally.  The same history
without the stop point (or with only one of the triggers) completes normally.
Same root cause as findings/C06_datastore_crash_hold_retrigger_release.py
(manual trigger while another mechanism - there a hold, here the stop point -
keeps later cycles in the window).

Candidate minimal fix: in _family_ascent_point_update skip child task ids
whose node is missing (tp_delta is None and tp_node is None), as is done for
ids outside all_n_window_nodes.

Drives the real scheduler through the /verif engine-S harness (vf.sim).  Run:
    cd /verif && PYTHONPATH=/verif:/repo /venv/bin/python \
        findings/C43_datastore_crash_trigger_beyond_stop_point.py
"""
import os
import shutil
import sys
import tempfile

scr = tempfile.mkdtemp(prefix='vf-finding-')
os.environ['HOME'] = scr + '/home'
os.makedirs(os.environ['HOME'])
os.environ['CYLC_CONF_PATH'] = scr + '/conf'
os.chdir(scr)
sys.path[:0] = [os.path.dirname(os.path.dirname(os.path.abspath(__file__))),
                os.environ.get('VF_REPO', '/repo')]

from vf import core  # noqa: E402
from vf.sim.drive import SCase, run_async  # noqa: E402

OPT = {'succ': False, 'submit': False, 'fail_required': False, 'custom': {}}
SPEC = {
    'mode': 'integer', 'icp': 1, 'fcp': 3, 'tasks': ['a', 'b'], 'custom': {},
    'opt': {'a': dict(OPT), 'b': dict(OPT)}, 'retries': {}, 'extra': {},
    'sections': [{'rec': {'kind': 'P', 'step': 1, 'off': 0, 'excl': []},
                  'lines': [
        {'lhs': {'t': 'a', 'off': -1, 'abs': None, 'out': 'succeeded',
                 'implicit': True, 'longform': False}, 'rhs': ['a']},
        {'lhs': None, 'rhs': ['b']}]}],
}
CASE = {'spec': SPEC, 'outcomes': {}, 'schedule': []}


async def main(stopcp):
    from cylc.flow import commands
    ctx = core.Ctx('C43', 'quick', 1, 0, 1, scr, core.Collector('C43'))
    opts = {'stopcp': stopcp} if stopcp else {}
    async with SCase(CASE, ctx, start_opts=opts) as sc:
        assert not sc.rejected, sc.rejected
        sim = sc.sim

        async def cmd(gen):
            """run a command as Scheduler.process_command_queue does"""
            await commands.run_cmd(gen)
            sim.schd.is_updated = True
        await sc.drv.loop()
        for id_ in ('2/a', '3/a'):
            await cmd(
                commands.force_trigger_tasks(sim.schd, [id_], []))
        if stopcp:
            await cmd(
                commands.stop(sim.schd, None, cycle_point='3'))
        await sc.drain()
        return sim.crashed, sim.shutdown_reason, len(sim.journal)


try:
    crashed0, reason0, n0 = run_async(main(None))
    print('no stop point            : crash =', repr(crashed0),
          '| shutdown', reason0, '| jobs', n0)
    crashed, reason, n = run_async(main('2'))
    print('--stopcp=2, later stop 3 : crash =', repr(crashed), '| jobs', n)
finally:
    shutil.rmtree(scr, ignore_errors=True)
assert crashed0 is None and isinstance(crashed, AttributeError), \
    'defect not present'
print('DEFECT: the scheduler died with', repr(crashed))
