"""C20 (restart load, also C19): a retained submit-failed task loses its submit-failed output at restart.

load_db_task_pool_for_restart() restores completed outputs only when the
task is loaded as running / failed / succeeded.  A task retained as incomplete
in state submit-failed comes back with no completed output; the restart poll
result ("submission failed", already in that state) then rewrites its
task_outputs row as {}.  The final outputs differ from the uninterrupted run
(["submit-failed"] vs []).  Any stop/restart does this, a crash is not needed.

How to run:  PYTHONPATH=/verif:/repo /venv/bin/python findings/C20_submit_failed_output_not_restored.py

This reproduction drives the REAL cylc Scheduler with the stepped-scheduler
harness of the verification framework (vf.sim engine + vf/props/c20.py): a
plain script is impractical because the scheduler has to be killed at one
exact database statement / main-loop position.  Every scheduler incarnation
below runs in its own forked child process and "killed" means
os._exit(137) in that child (no shutdown code, no commit, open transaction
abandoned); jobs are scripted on a virtual cluster; the next incarnation is a
new Scheduler object in a new process on the same run directory.
Candidate minimal fix: restore outputs for every final status (add submit-failed and expired to the status list in load_db_task_pool_for_restart).
"""
import json
import os
import sys

sys.path[:0] = [os.environ.get('VF_ROOT', '/verif'),
                os.environ.get('VF_REPO', '/repo')]
import vf.props.c20 as c20  # noqa: E402

# kills = [[class index into c20.KILL_CLASSES, n-th point of that class,
#           effect number of a second kill in the restarted scheduler (0 =
#           none), job progress while down (0 none / 1 one step / 2 to end)]]
CASE = json.loads(r'''{"spec": {"mode": "integer", "icp": 1, "fcp": 1, "retries": {}, "extra": {}, "custom": {}, "tasks": ["a"], "opt": {"a": {"succ": false, "submit": false, "fail_required": false, "custom": {}}}, "sections": [{"rec": {"kind": "R1", "at": 1, "form": 0}, "lines": [{"lhs": null, "rhs": ["a"]}]}]}, "outcomes": {"1/a": [{"final": "submit-fail"}]}, "ret_delays": [], "kills": [[9, 6, 0, 0]]}''')

if __name__ == '__main__':
    res = c20.explain(CASE)
    want = 'C20:final-outputs-differ-from-uninterrupted-run:submit-failed-output-not-restored-on-restart'
    ok = any(v.sig == want for v in res.violations)
    print()
    print('REPRODUCED' if ok else 'NOT REPRODUCED', want)
    sys.exit(0 if ok else 1)
