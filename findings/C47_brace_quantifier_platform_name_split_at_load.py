r"""C47: a platform name pattern with a {m,n} quantifier never matches.

global.cylc platform names are documented to be regular expressions
("[[desktop[0-9]{4}]]") and section headers may also be comma separated lists.
platform_from_name() explicitly protects the comma of a {m,n} quantifier when
it turns a comma list into an alternation
(re.sub(r'\s*(?!{[\s\d]*),(?![\s\d]*})\s*', '|', name)) and
tests/unit/test_platforms.py exercises names such as r'vld\d{2,3}' by passing
a platforms dict directly.  But a real global.cylc goes through
GlobalConfig.load() -> _expand_commas() -> parsec.util.expand_many_section(),
whose SECTION_EXPAND_PATTERN splits the header at EVERY comma outside quotes.
So [[hpc[0-9]{1,3}]] is silently turned into the two bogus platforms
"hpc[0-9]{1" and "3}", and the name "hpc12" - which fully matches the pattern
the user defined - resolves to nothing (PlatformLookupError), or falls through
to an earlier, more general definition.

Run:  PYTHONPATH=/repo /venv/bin/python findings/C47_brace_quantifier_platform_name_split_at_load.py
"""
import os
import re
import tempfile

d = tempfile.mkdtemp()
with open(os.path.join(d, 'global.cylc'), 'w') as f:
    f.write('''
[platforms]
    [[hpc.*]]
        hosts = general
    [[hpc[0-9]{1,3}]]
        hosts = login1
    [[desk[0-9]{2}]]
        hosts = desk_login
''')
os.environ['CYLC_CONF_PATH'] = d

from cylc.flow.cfgspec.globalcfg import GlobalConfig  # noqa: E402
from cylc.flow.exceptions import PlatformLookupError  # noqa: E402
from cylc.flow.platforms import platform_from_name  # noqa: E402

cfg = GlobalConfig.get_inst(cached=False)
GlobalConfig.set_cache(cfg)
print('platform definitions after load:', list(cfg.get(['platforms'])))
assert re.fullmatch('hpc[0-9]{1,3}', 'hpc12')
bad = 0
plat = platform_from_name('hpc12')
print("platform_from_name('hpc12') hosts:", plat['hosts'],
      "(last-defined fully matching pattern is hpc[0-9]{1,3} -> ['login1'])")
bad += plat['hosts'] != ['login1']
print("platform_from_name('desk12') hosts:",
      platform_from_name('desk12')['hosts'], '(no comma: fine)')

with open(os.path.join(d, 'global.cylc'), 'w') as f:
    f.write('[platforms]\n    [[hpc[0-9]{1,3}]]\n        hosts = login1\n')
cfg = GlobalConfig.get_inst(cached=False)
GlobalConfig.set_cache(cfg)
try:
    platform_from_name('hpc12')
    print('hpc12 resolved')
except PlatformLookupError as exc:
    bad += 1
    print('only [[hpc[0-9]{1,3}]] defined:', repr(exc))
# the same definition handed over as a dict (unit-test style) works:
print('dict path:', platform_from_name(
    'hpc12', platforms={'hpc[0-9]{1,3}': {'hosts': ['login1']}})['hosts'])
print('DEFECT REPRODUCED' if bad else 'not reproduced')
