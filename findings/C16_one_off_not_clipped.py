"""C16: one-off recurrences are not clipped to the initial/final cycle point.

IntegerSequence.__init__ docstring: "If computed start and stop points are
out of bounds, they will be set to None", and the two clipping blocks say
"if i_step is None here, points will just be None (out of bounds)" - but both
blocks are guarded by `if self.i_step and ...`, so a one-off point outside
[initial, final] stays valid, is returned by get_start_point/get_stop_point,
get_first_point and get_next_point.
"""
from cylc.flow.cycling.integer import IntegerSequence, IntegerPoint

bad = 0
for expr, a, b in [('R1/8', '3', '5'), ('R1/1', '3', '5'),
                   ('R1//+P2', '0', '4'), ('R1/0/P2', '3', '7')]:
    seq = IntegerSequence(expr, a, b)
    got = [i for i in range(-2, 30) if seq.is_valid(IntegerPoint(str(i)))]
    ok = got == []
    bad += not ok
    print(f'IntegerSequence({expr!r}, {a!r}, {b!r}): expected no valid point '
          f'within [{a}, {b}]; valid points {got}, start '
          f'{seq.get_start_point()}, first>=initial '
          f'{seq.get_first_point(IntegerPoint(a))}',
          'OK' if ok else '<-- WRONG')
print('DEFECT REPRODUCED' if bad else 'not reproduced')
