"""C11: the default completion expression cannot be evaluated when a required
custom output's name is not a Python identifier.

Run:  PYTHONPATH=/repo /venv/bin/python findings/C11_default_expression_non_identifier_output.py

Output names may be any mix of word characters, digits and "-"
(cylc.flow.unicode_rules.TaskOutputValidator), so `1`, `2nd`, `in`, `not`,
`True` are accepted by WorkflowConfig.  get_completion_expression() splices
the name into a Python expression ("(1 and succeeded)"), which
CompletionEvaluator then rejects (Constant not whitelisted / SyntaxError):
TaskOutputs.is_complete() raises InvalidCompletionExpression for every set of
completed outputs, i.e. when the task finishes in a scheduler.
"""
import tempfile
from pathlib import Path

from cylc.flow.config import WorkflowConfig
from cylc.flow.scripts.validate import ValidateOptions
from cylc.flow.task_outputs import TaskOutputs

bad = 0
for name in ['1', '2nd', 'in', 'True']:
    d = Path(tempfile.mkdtemp())
    (d / 'flow.cylc').write_text(f'''
[scheduler]
    allow implicit tasks = True
[scheduling]
    [[graph]]
        R1 = "t:{name} => p"
[runtime]
    [[t]]
        [[[outputs]]]
            {name} = "stage {name} done"
''')
    cfg = WorkflowConfig('w', str(d / 'flow.cylc'), ValidateOptions())
    tdef = cfg.taskdefs['t']
    print(f'output {name!r}: accepted by WorkflowConfig; default completion '
          f'= {tdef.rtconfig["completion"]!r}')
    outs = TaskOutputs(tdef)
    for msg in ('submitted', 'started', f'stage {name} done', 'succeeded'):
        outs.set_message_complete(msg)
    try:
        print('   is_complete() ->', outs.is_complete())
    except Exception as exc:
        bad += 1
        print(f'   is_complete() raised {type(exc).__name__}: '
              f'{str(exc).splitlines()[-1]}')

print()
if bad:
    print(f'WRONG: {bad}/4 valid task definitions whose completion cannot be '
          'evaluated (expected: complete, all required outputs are present)')
else:
    print('ok: not reproduced')
