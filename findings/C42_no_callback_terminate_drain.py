"""C42: a command still queued when SubProcPool.terminate() drains the queue
never gets a callback.

Run:  PYTHONPATH=/repo /venv/bin/python findings/C42_no_callback_terminate_drain.py

put_command() on a closed pool reports the command back through its callback
with ret_code 999 ("workflow stopping, command not run"), but terminate()
pops queued commands and calls `_run_command_exit(ctx)` WITHOUT the callback,
so the caller of put_command() is never told.
"""
import os
import tempfile

os.environ.setdefault('CYLC_CONF_PATH', tempfile.mkdtemp())

from cylc.flow.subprocctx import SubProcContext
from cylc.flow.subprocpool import SubProcPool

pool = SubProcPool()
calls = []
ctx = SubProcContext('other', ['true'])
pool.put_command(ctx, callback=lambda c, *a: calls.append((c.ret_code, a)),
                 callback_args=['x'])
pool.terminate()
print('ctx.ret_code =', ctx.ret_code, '| ctx.err =', repr(ctx.err))
print('callback invocations:', calls)
if not calls:
    print('WRONG: the queued command was dropped by terminate() '
          '(ret_code 999 set on ctx) but its callback was never called')
    raise SystemExit(1)
print('ok: callback was called')
