"""C25 finding: an element that is *added* and *updated* in the same delta
batch is published with the update already merged into the `added` copy, so
every client appends id-list fields (PbTaskProxy.edges, PbTaskProxy.jobs,
PbFamilyProxy.child_tasks) twice and no longer holds the scheduler's data.

Mechanism (cylc/flow/data_store_mgr.py):

  * DataStoreMgr.update_data_structure():  batch_deltas() ->
    apply_delta_batch() -> apply_delta_checksum() -> get_publish_deltas():
    the batch is applied to the scheduler's own store *before* it is copied
    for publication.
  * apply_delta(): `data[key].update({e.id: e for e in delta.added})` puts
    the delta's own `added` element object into the store; the following
    `data_element.MergeFrom(element)` for the `updated` element of the same id
    therefore also changes the element inside the delta message.
  * get_publish_deltas() then deep-copies that message: the published
    `added` element already contains the update, and the `updated` element is
    published as well.  A client (the same apply_delta) stores the `added`
    element and merges the update a second time; MergeFrom *appends*
    repeated fields.
  * generate_edge() always sends a task proxy's edge ids through
    `updated[TASK_PROXIES]`, also for a proxy created in the same batch
    (`added[TASK_PROXIES]`) - the normal case when a task enters the
    window - so practically every workflow with a dependency edge does this
    in its first batch.  insert_job()/insert_db_job() do the same with
    `jobs`, generate_ghost_family with `child_tasks`.
  * Consequence: duplicates in the client; and when the edge is pruned
    later, apply_delta removes one occurrence only, leaving a stale edge id.

This script uses the real DataStoreMgr methods in the order of
update_data_structure() on a manager with a stub scheduler (those four
methods never touch it), with the input generate_edge() produces, and plays
the published batch into a client store with the library's apply_delta.

Run: PYTHONPATH=/repo /venv/bin/python \
     findings/C25_added_element_published_with_update_merged.py

Candidate minimal fix: publish before applying (copy the batch first), or
store a copy in apply_delta (`{e.id: copy(e) for e in delta.added}`).
"""
from copy import deepcopy
from types import SimpleNamespace

from cylc.flow.data_messages_pb2 import PbEdge, PbTaskProxy
from cylc.flow.data_store_mgr import (
    ALL_DELTAS, DATA_TEMPLATE, DELTAS_MAP, EDGES, TASK_PROXIES, DataStoreMgr,
    apply_delta)

mgr = DataStoreMgr(SimpleNamespace(owner='user', workflow='w'))
tp_id = mgr.id_.duplicate(cycle='1', task='a').id
child = mgr.id_.duplicate(cycle='1', task='b').id
e_id = f'{mgr.workflow_id}//$edge|1/a|1/b'

# what generate_ghost_task + generate_edge leave behind for a new node:
mgr.added[TASK_PROXIES][tp_id] = PbTaskProxy(id=tp_id, stamp=f'{tp_id}@1')
mgr.added[EDGES][e_id] = PbEdge(id=e_id, source=tp_id, target=child)
mgr.updated[TASK_PROXIES].setdefault(
    tp_id, PbTaskProxy(id=tp_id)).edges.append(e_id)

# DataStoreMgr.update_data_structure(), the four relevant calls in order
mgr.batch_deltas()
mgr.apply_delta_batch()
mgr.apply_delta_checksum()
published = mgr.get_publish_deltas()

# a client: empty store, applies the published batch (wire round trip)
client = deepcopy(DATA_TEMPLATE)
for topic, delta, _ser in published:
    key = topic.decode()
    if key == ALL_DELTAS:
        continue
    apply_delta(
        key, DELTAS_MAP[key].FromString(delta.SerializeToString()), client)

sched_edges = list(mgr.data[mgr.workflow_id][TASK_PROXIES][tp_id].edges)
client_edges = list(client[TASK_PROXIES][tp_id].edges)
pub = [m for t, m, _ in published if t == TASK_PROXIES.encode()][0]
print('published added  :', [(e.id, list(e.edges)) for e in pub.added])
print('published updated:', [(e.id, list(e.edges)) for e in pub.updated])
print('scheduler store  :', sched_edges)
print('client store     :', client_edges)
if sched_edges != client_edges:
    print('DEFECT: the client holds the edge id '
          f'{client_edges.count(e_id)} times, the scheduler '
          f'{sched_edges.count(e_id)} time(s)')
else:
    print('ok: client == scheduler')
