"""C01 finding: a task that is parentless on one recurrence stops being
auto-spawned after the first cycle point at which another recurrence gives
it a parent, if that parent's (optional) output never completes.

    P1   = foo
    R1/2 = bar:fail? => foo          (bar succeeds)

foo.1 runs, foo.2 correctly does not, but foo.3 and foo.4 (no prerequisites
at all) never run and the scheduler shuts down as if complete.

Shown here at function level: TaskDef.next_point_parentless() - used by
TaskPool.spawn_to_rh_limit() to find the next instance to auto-spawn -
returns None after point 1 because it only looks at the *next* point of
each sequence and gives up if that one is parented.

Run: PYTHONPATH=/repo /venv/bin/python findings/C01_parentless_chain.py
"""
import os, tempfile
d = tempfile.mkdtemp()
os.environ['HOME'] = d
open(f'{d}/flow.cylc', 'w').write('''
[scheduler]
    allow implicit tasks = True
[scheduling]
    cycling mode = integer
    initial cycle point = 1
    final cycle point = 4
    [[graph]]
        P1 = foo
        R1/2 = bar:fail? => foo
''')
from cylc.flow.config import WorkflowConfig
from cylc.flow.scripts.validate import ValidateOptions
from cylc.flow.cycling.loader import get_point
cfg = WorkflowConfig('w', f'{d}/flow.cylc', ValidateOptions())
foo = cfg.taskdefs['foo']
icp = get_point('1')
for p in '1234':
    pt = get_point(p)
    print(f'foo.{p}: valid={foo.is_valid_point(pt)} parentless={foo.is_parentless(pt, icp)}')
nxt = foo.next_point_parentless(icp, get_point('1'))
print('next parentless point after 1 ->', nxt, '(expected 3)')
assert nxt is None, 'defect not present'
print('DEFECT: foo.3 and foo.4 are parentless but are never auto-spawned')
