r"""C36: an %include directive that only appears AFTER Jinja2 processing (inside
a multi-line string) is left as text by the first parse but acted upon when
the processed file is parsed.

Run:  PYTHONPATH=/repo /venv/bin/python findings/C36_jinja2_generated_include_reinlined.py

read_and_proc() inlines %include files BEFORE Jinja2.  A "%include x" line that
is produced by Jinja2 (an expression, or a Jinja2-{% include %}d file that
contains a cylc %include line) is therefore not inlined; inside a triple-quoted
value it is just a line of the string and the source parses.  It is written
verbatim to flow-processed.cylc; parsing that file runs inline() on it: the
include is now attempted (IncludeFileNotFoundError relative to log/config/, or
the file's text is spliced into the string if it is found).
Corner case (needs Jinja2 to emit the directive inside a string value).
"""
import os
import tempfile

from cylc.flow.parsec.fileparse import parse


def tolist(d):
    return [(k, tolist(v) if isinstance(v, dict) else v) for k, v in d.items()]


SRC = '''#!jinja2
[runtime]
    [[gen]]
        script = """
cat > "$CYLC_WORKFLOW_SHARE_DIR/extra.cylc" <<__END__
{{ "%include" }} 'site.cylc'
__END__
"""
'''
d = tempfile.mkdtemp()
os.makedirs(os.path.join(d, 'log', 'config'))
src = os.path.join(d, 'flow.cylc')
out = os.path.join(d, 'log', 'config', 'flow-processed.cylc')
with open(src, 'w') as f:
    f.write(SRC)
cwd = os.getcwd()
first = tolist(parse(src, out))
os.chdir(cwd)
print('parse(source)    =', first)
print('processed file:\n' + open(out).read())
try:
    second = tolist(parse(out))
except Exception as exc:
    second = f'{type(exc).__name__}: {exc}'
os.chdir(cwd)
print('parse(processed) =', second)
print('DEFECT REPRODUCED' if first != second else 'not reproduced')
