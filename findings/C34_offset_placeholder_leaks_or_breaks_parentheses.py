r"""C34: a parameter offset with no previous value is not always dropped.

GraphExpander substitutes the placeholder -32768 for an out-of-range offset
value and GraphParser removes the placeholder nodes afterwards with one
regular expression (REC_NODE_OUT_OF_RANGE) applied with re.sub to each chain
node:

    ^<TOKEN>[&|]   |   [&|]<TOKEN>   |   ^<TOKEN>$
    with <TOKEN> = [^\s&|]+ -32768 [^\s&|]+     (so it also eats parentheses)

(a) two out-of-range operands at the START of an expression:
    "foo<m-1> & bar<m-1> => baz<m>" -> the first is removed together with its
    trailing '&'; the second now starts the remaining text but '^' does not
    match there and its leading '&' is gone, so it stays: a task called
    "bar_m-32768" is created and baz_m0 waits for it for ever.
(b) an out-of-range operand next to a parenthesis:
    "(foo<m-1> | a) & b => foo<m>" -> the parenthesis is swallowed with the
    token: GraphParseError "Mismatched parentheses" for a valid graph.

Run: PYTHONPATH=/repo /venv/bin/python findings/C34_offset_placeholder_leaks_or_breaks_parentheses.py
"""
from cylc.flow.graph_parser import GraphParser
from cylc.flow.exceptions import GraphParseError

params = ({'m': [0, 1]}, {'m': '_m%(m)d'})
bad = 0

# control: one out-of-range operand is dropped as documented
gp = GraphParser(parameters=params)
gp.parse_graph('foo<m-1> & c => baz<m>')
print('control  foo<m-1> & c => baz<m>        tasks:', sorted(gp.triggers))

gp = GraphParser(parameters=params)
gp.parse_graph('foo<m-1> & bar<m-1> => baz<m>')
tasks = sorted(gp.triggers)
print('(a)      foo<m-1> & bar<m-1> => baz<m> tasks:', tasks)
print('         baz_m0 triggers:', gp.triggers.get('baz_m0'))
if any('-32768' in t for t in tasks):
    bad += 1
    print('         WRONG: placeholder task in the graph')

for g in ['(foo<m-1> | a) & b => foo<m>', '(a | foo<m-1>) & b => foo<m>']:
    gp = GraphParser(parameters=params)
    try:
        gp.parse_graph(g)
        print(f'(b)      {g} accepted, tasks: {sorted(gp.triggers)}')
    except GraphParseError as exc:
        bad += 1
        print(f'(b)      {g}: WRONG: GraphParseError: {exc}')
print('DEFECT REPRODUCED' if bad else 'not reproduced')
