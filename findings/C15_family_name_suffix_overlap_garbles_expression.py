r"""C15: a family trigger is expanded inside the name of another family whose
name ends with it.

GraphParser._families_all_to_all replaces family triggers with
    re.sub(r'\bFAM:succeed-all\b', '(m1:succeeded&m2:succeeded)', expr)
`\b` matches after '-', '+', '%', '@', which are legal in namespace names, so
in "FAM:succeed-all | X-FAM:succeed-all => x" the text "FAM:succeed-all"
inside "X-FAM:succeed-all" is expanded too (with FAM's members) and the
expression becomes  (m1:succeeded&s1:succeeded)|X-(m1:succeeded&s1:succeeded).
The workflow validates; the dependency of x contains the stray text "X-".

Candidate fix: use the task-name boundary look-arounds introduced in 86a328e
(_RE_NAME_START) and re.escape(name) in _families_all_to_all.

Run: PYTHONPATH=/repo /venv/bin/python findings/C15_family_name_suffix_overlap_garbles_expression.py
"""
from cylc.flow.graph_parser import GraphParser

fam = {'FAM': ['m1', 's1'], 'X-FAM': ['s1'], 'XFAM': ['s1']}
out = {}
for g in ['FAM:succeed-all | XFAM:succeed-all => x',      # control
          'FAM:succeed-all | X-FAM:succeed-all => x']:
    gp = GraphParser(fam)
    gp.parse_graph(g)
    out[g] = list(gp.triggers['x'])[0]
    print(f'{g}\n    -> {out[g]}')
bad = 'X-(' in out['FAM:succeed-all | X-FAM:succeed-all => x']
print('DEFECT REPRODUCED' if bad else 'not reproduced')
