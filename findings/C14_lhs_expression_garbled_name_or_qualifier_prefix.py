"""C14: a conditional left-hand side is garbled when one task name (or one
qualifier) is a prefix of another up to a non-word character.

GraphParser._proc_dep_pair makes implicit/alternative qualifiers explicit
with `re.sub(r'\bNAME\b(?![\[:])', 'NAME:succeeded', expr)` (and
r'\bNAME:QUAL\b' for alternative qualifier spellings).  `\b` also matches
before `-`, `+`, `%`, `@`, which are legal inside task names and output
names, so the substitution for `foo` also rewrites the `foo` inside `foo-bar`,
and the one for `foo:submit` also rewrites `foo:submit-fail`.  Only
expressions kept whole (containing `|` or parentheses) are affected.

The recorded trigger expression then names outputs that do not exist, the
workflow validates, and the prerequisite raises TriggerExpressionError when it
is evaluated at run time.

Run: PYTHONPATH=/repo /venv/bin/python findings/C14_lhs_expression_garbled_name_or_qualifier_prefix.py
"""
from cylc.flow.graph_parser import GraphParser

bad = 0
for graph, want in [
    ('foo-bar | foo => x', 'foo-bar:succeeded|foo:succeeded'),
    ('foo | foo+1 => x', 'foo:succeeded|foo+1:succeeded'),
    ('foo:submit? | foo:submit-fail? => x',
     'foo:submitted|foo:submit-failed'),
    ('(foo:start | foo:start-1) => x', '(foo:started|foo:start-1)'),
]:
    gp = GraphParser()
    gp.parse_graph(graph)
    (expr, (trigs, _)), = gp.triggers['x'].items()
    ok = expr == want
    bad += not ok
    print(f'{graph!r}\n   parsed expression : {expr}\n   trigger list      : '
          f'{trigs}\n   expected          : {want}\n   '
          f'{"ok" if ok else "WRONG: expression names outputs that were not written"}')

# the consequence at run time
try:
    from cylc.flow.prerequisite import Prerequisite
    from cylc.flow.cycling.integer import IntegerPoint
    gp = GraphParser()
    gp.parse_graph('foo:submit? | foo:submit-fail? => x')
    expr = list(gp.triggers['x'])[0]
    pre = Prerequisite(IntegerPoint('1'))
    pre[('1', 'foo', 'submitted')] = False
    pre[('1', 'foo', 'submit-failed')] = False
    # what Dependency.get_expression builds from the garbled text
    pre.set_conditional_expr(
        expr.replace('foo:submitted', '1/foo:submitted', 1))
    try:
        pre.is_satisfied()
    except Exception as exc:
        print('evaluating the prerequisite:', type(exc).__name__)
except Exception as exc:   # API drift: the parser output above is the finding
    print('(run-time illustration skipped:', repr(exc), ')')

print('DEFECT REPRODUCED' if bad else 'not reproduced')
