import os, sys, tempfile, sqlite3
scr = tempfile.mkdtemp(prefix='vfexp-')
os.environ['HOME'] = scr + '/home'; os.makedirs(os.environ['HOME'])
os.environ['CYLC_CONF_PATH'] = scr + '/conf'; os.environ['TMPDIR']=scr
sys.path[:0]=['/verif','/repo']
from vf.core import Ctx, Collector
from vf.sim.drive import SCase, run_async
ctx = Ctx('CXX','quick',1,0,1,scr,Collector('CXX'))
spec = {'mode':'integer','icp':1,'fcp':4,'tasks':['a'],'custom':{},'opt':{'a':{}},'retries':{},'extra':{},
 'sections':[{'rec':{'kind':'P','step':1,'off':0,'excl':[]},'lines':[{'lhs':{'t':'a','off':-1,'abs':None,'out':'succeeded'},'rhs':['a']}]}]}
async def main():
    async with SCase({'spec':spec,'outcomes':{},'schedule':[]}, ctx) as sc:
        drv, sim = sc.drv, sc.sim
        await drv.step('loop',0)
        await drv.step('hold-point', 1)   # hold point = 2
        await drv.step('loop',0)
        db = sim.schd.workflow_db_mgr.pri_path
        q = lambda: sqlite3.connect(db).execute("select value from workflow_params where key='holdcp'").fetchall()
        print('before reload', q())
        await drv.step('reload',0); await drv.step('loop',0)
        print('after reload ', q())
        await drv.step('restart', 0)
        print('hold point after restart:', sim.schd.pool.hold_point)
        return sim.schd.pool.hold_point is None
bad = run_async(main())
print('DEFECT: hold point lost' if bad else 'ok')
