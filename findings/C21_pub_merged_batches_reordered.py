"""C21: operations queued while an earlier public-DB write is still failing are
merged into the retained batch and executed in a different order than on the
private DB, so the public DB diverges for good.

Run:  PYTHONPATH=/repo /venv/bin/python findings/C21_pub_merged_batches_reordered.py

The DAO executes, per table, all DELETEs, then all INSERTs, then all UPDATEs
of whatever is in its queues.  The private DB commits batch 1 (insert row) and
later batch 2 (delete that row) in order: row gone.  The public DB failed on
batch 1 (locked), keeps it queued, receives batch 2 into the same queues and
on the retry runs DELETE first, INSERT second: row present for ever.
Example below: a broadcast is set, then cancelled, while the public DB is
locked for a single main-loop iteration.
"""
import os
import sqlite3
import tempfile

os.environ.setdefault('CYLC_CONF_PATH', tempfile.mkdtemp())

from cylc.flow.rundb import CylcWorkflowDAO
from cylc.flow.workflow_db_mgr import WorkflowDatabaseManager

CylcWorkflowDAO.CONN_TIMEOUT = 0.01     # only to make the script fast
base = tempfile.mkdtemp()
pri_d, pub_d = os.path.join(base, 'pri'), os.path.join(base, 'pub')
os.makedirs(pri_d)
os.makedirs(pub_d)
mgr = WorkflowDatabaseManager(pri_d, pub_d)
mgr.on_workflow_start(is_restart=False)

# batch 1: broadcast set (what put_broadcast queues)
mgr.put_broadcast([('1', 'foo', {'script': 'true'})])
locker = sqlite3.connect(mgr.pub_path, isolation_level=None)
locker.execute('BEGIN EXCLUSIVE')
mgr.process_queued_ops()            # private OK; public locked -> retained
locker.execute('ROLLBACK')
locker.close()
# batch 2: the same broadcast is cancelled
mgr.put_broadcast([('1', 'foo', {'script': 'true'})], is_cancel=True)
mgr.process_queued_ops()            # public: DELETE then (retained) INSERT
mgr.process_queued_ops()
mgr.recover_pub_from_pri()          # n_tries is 0: nothing to recover


def rows(path):
    conn = sqlite3.connect(path)
    try:
        return conn.execute('SELECT * FROM broadcast_states').fetchall()
    finally:
        conn.close()


pri, pub = rows(mgr.pri_path), rows(mgr.pub_path)
mgr.on_workflow_shutdown()
print('private broadcast_states:', pri)
print('public  broadcast_states:', pub)
if pri != pub:
    print('WRONG: public DB still holds a broadcast that was cancelled; it '
          'does not converge to the private DB')
    raise SystemExit(1)
print('ok')
