"""C21: after the public-DB recovery copy the retained public queue is applied
a second time, so the public DB ends up with rows the private DB does not have.

Run:  PYTHONPATH=/repo /venv/bin/python findings/C21_pub_queue_reapplied_after_recovery.py

Sequence (what the scheduler main loop does):
  1. an insert into a table without primary key (task_events here) is queued;
  2. the public DB is locked by another process for >= MAX_TRIES main-loop
     iterations: every process_queued_ops() writes the private DB at the first
     call and fails on the public DB; the public DAO keeps its queue;
  3. database_health_check() -> recover_pub_from_pri() copies the private DB
     (which already contains the row) over the public DB and resets n_tries,
     but does NOT clear the public DAO's queues;
  4. the lock goes away; the next process_queued_ops() re-executes the
     retained INSERT on top of the copy -> the row is in the public DB twice.
The two databases never converge again (nothing removes the extra row).
"""
import os
import sqlite3
import tempfile

os.environ.setdefault('CYLC_CONF_PATH', tempfile.mkdtemp())

from cylc.flow.rundb import CylcWorkflowDAO
from cylc.flow.workflow_db_mgr import WorkflowDatabaseManager

CylcWorkflowDAO.CONN_TIMEOUT = 0.01     # only to make the script fast
base = tempfile.mkdtemp()
pri_d, pub_d = os.path.join(base, 'pri'), os.path.join(base, 'pub')
os.makedirs(pri_d)
os.makedirs(pub_d)
mgr = WorkflowDatabaseManager(pri_d, pub_d)
mgr.on_workflow_start(is_restart=False)

mgr.db_inserts_map.setdefault('task_events', []).append({
    'name': 'foo', 'cycle': '1', 'time': 'T', 'submit_num': 1,
    'event': 'submitted', 'message': ''})

locker = sqlite3.connect(mgr.pub_path, isolation_level=None)
locker.execute('BEGIN EXCLUSIVE')
for _ in range(CylcWorkflowDAO.MAX_TRIES):
    mgr.process_queued_ops()        # private OK, public "database is locked"
print('public n_tries =', mgr.pub_dao.n_tries)
mgr.recover_pub_from_pri()          # scheduler.database_health_check()
locker.execute('ROLLBACK')
locker.close()
mgr.process_queued_ops()            # lock gone: retained queue is re-applied
mgr.process_queued_ops()


def rows(path):
    conn = sqlite3.connect(path)
    try:
        return conn.execute('SELECT * FROM task_events').fetchall()
    finally:
        conn.close()


pri, pub = rows(mgr.pri_path), rows(mgr.pub_path)
mgr.on_workflow_shutdown()
print('private task_events:', pri)
print('public  task_events:', pub)
if pri != pub:
    print('WRONG: public DB does not converge to the private DB '
          '(duplicate row from the re-applied queue)')
    raise SystemExit(1)
print('ok')
