"""C15: FAM:submit-fail-any on the left of an arrow triggers off the members'
`submitted` output, not `submit-failed`.

GraphParser.fam_to_mem_trigger_map has
    QUAL_FAM_SUBMIT_FAIL_ANY: (TASK_OUTPUT_SUBMITTED, False),
(every other entry maps to the matching member output; the -all variant maps
to TASK_OUTPUT_SUBMIT_FAILED).  So "FAM:submit-fail-any? => handler" runs the
handler as soon as any member is *submitted*, and never because of a
submission failure.  (fam_to_mem_output_map is right, so the optionality is
still applied to submit-failed.)

Candidate fix: QUAL_FAM_SUBMIT_FAIL_ANY: (TASK_OUTPUT_SUBMIT_FAILED, False).

Run: PYTHONPATH=/repo /venv/bin/python findings/C15_submit_fail_any_maps_to_submitted.py
"""
from cylc.flow.graph_parser import GraphParser

fam = {'FAM': ['m1', 'm2']}
out = {}
for q in ('submit-fail-all', 'submit-fail-any'):
    gp = GraphParser(fam)
    gp.parse_graph(f'FAM:{q}? => x')
    out[q] = list(gp.triggers['x'])[0]
    print(f'FAM:{q}? => x   parses to   {out[q]} => x')
member = GraphParser()
member.parse_graph('m1:submit-fail? | m2:submit-fail? => x')
want = list(member.triggers['x'])[0]
print(f'member form m1:submit-fail? | m2:submit-fail? => x parses to {want}')
bad = out['submit-fail-any'].strip('()') != want
print('DEFECT REPRODUCED' if bad else 'not reproduced')
