"""Shared boilerplate of the C25 / C27 reload findings (drives the real
Scheduler through /verif/vf/sim - a plain script cannot single-step it)."""
import os
import sys
import tempfile

scr = tempfile.mkdtemp(prefix='vf-finding-')
os.environ['HOME'] = scr + '/home'
os.makedirs(os.environ['HOME'])
os.environ['CYLC_CONF_PATH'] = scr + '/conf'
os.chdir(scr)
sys.path[:0] = [os.path.dirname(os.path.dirname(os.path.abspath(__file__))),
                os.environ.get('VF_REPO', '/repo')]

from vf import core  # noqa: E402
from vf.gen.wfspec import render_flow  # noqa: E402
from vf.sim.drive import SCase, run_async  # noqa: E402,F401


def opt():
    return {'succ': False, 'submit': False, 'fail_required': False,
            'custom': {}}


def spec_of(tasks, fcp=1):
    """P1 = lone nodes for every task."""
    return {
        'mode': 'integer', 'icp': 1, 'fcp': fcp, 'tasks': list(tasks),
        'custom': {}, 'opt': {t: opt() for t in tasks}, 'retries': {},
        'extra': {},
        'sections': [{'rec': {'kind': 'P', 'step': 1, 'off': 0, 'excl': []},
                      'lines': [{'lhs': None, 'rhs': [t]} for t in tasks]}],
    }


def ctx_for(prop):
    return core.Ctx(prop, 'quick', 1, 0, 1, scr, core.Collector(prop))


async def fair_round(drv):
    """every pending command returns, every job emits its next message,
    everything is delivered, one main-loop iteration"""
    sim = drv.sim
    for it in sim.pending_cmds():
        sim.mark_returned(it)
    for job in sorted(sim.live_jobs(), key=lambda j: j.key):
        sim.advance(job)
    for m in list(sim.inflight):
        sim.deliver(m)
    await drv.loop()


async def reload_with(sim, spec):
    """write the rendered definition into the run dir, real reload command"""
    from cylc.flow import commands
    (sim.run_dir / 'flow.cylc').write_text(render_flow(spec))
    await commands.run_cmd(commands.reload_workflow(sim.schd))


def cleanup():
    import shutil
    shutil.rmtree(scr, ignore_errors=True)
