"""C42: a command still RUNNING when SubProcPool.terminate() is called may
never get a callback (and its child is left un-reaped), depending on OS timing.

Run:  PYTHONPATH=/repo /venv/bin/python findings/C42_terminate_kill_race.py

terminate() sends SIGKILL to the running children and then calls process()
("# Wait for child processes"), but process() does not wait: it only does a
non-blocking `proc.poll()`.  kill(2) returns before the target has actually
died, so poll() can still return None; the command then stays in
`pool.runnings` forever: no callback, zombie child.  (The time-out path, in
contrast, uses the blocking `proc.wait()` after its kill.)

This is a real race, so the script repeats the experiment and counts.
"""
import os
import tempfile

os.environ.setdefault('CYLC_CONF_PATH', tempfile.mkdtemp())

from cylc.flow.subprocctx import SubProcContext
from cylc.flow.subprocpool import SubProcPool

N = 300
missed = 0
for _ in range(N):
    pool = SubProcPool()
    calls = []
    ctx = SubProcContext('other', ['sleep', '60'])
    pool.put_command(ctx, callback=lambda c, *a: calls.append(c.ret_code))
    pool.process()          # child is now running
    assert len(pool.runnings) == 1
    pool.terminate()
    if not calls:
        missed += 1
        assert len(pool.runnings) == 1   # still listed as running
    for item in pool.runnings:           # tidy up
        item[0].wait()
        item[0].stdout.close()
        item[0].stderr.close()
print(f'{missed}/{N} terminate() calls left the running command without a '
      f'callback (still in pool.runnings)')
if missed:
    print('WRONG: terminate() does not wait for the children it kills')
    raise SystemExit(1)
print('race not observed this time (timing dependent)')
