"""C19 finding: a pooled task whose flows were merged after its last
completed output comes back from a restart with no completed outputs.

TaskPool.merge_flows() -> db_add_new_flow_rows() ->
WorkflowDatabaseManager.put_insert_task_outputs() inserts a *new*
task_outputs row for the merged flow numbers with `outputs = {}`.  The
outputs the task has completed so far are written to that row only when its
next output completes (put_update_task_outputs writes the whole dict).  The
restart loader joins task_pool with task_outputs on (cycle, name,
flow_nums), so if the scheduler stops in between, the task - still running
in the pool - is reloaded with an empty set of completed outputs.

Below: `a => b`; b is running in flow 1 (outputs submitted, started); a is
re-run with `cylc trigger --flow=new`, succeeds, and spawns b again: b is
merged into flows {1, 2}.  Stop, restart: b is running with no outputs.
(For a *running* task the restart poll re-creates `started`; a task
retained as failed / succeeded-incomplete is not polled and stays empty.)

C19: a restart restores every pooled task's completed outputs.

Candidate fix: put_insert_task_outputs() (or merge_flows) should write the
task's current completed outputs, not {}.

Uses the verification harness (vf.sim: real Scheduler objects, single-stepped
main loop, virtual job cluster) because a stop/restart needs a scheduler.
Run: cd /verif && PYTHONPATH=/verif:/repo /venv/bin/python \
         findings/C19_outputs_lost_after_flow_merge.py
"""
import os
import shutil
import sqlite3
import sys
import tempfile

scr = tempfile.mkdtemp(prefix='vf-finding-')
os.environ['HOME'] = scr + '/home'
os.makedirs(os.environ['HOME'])
os.environ['CYLC_CONF_PATH'] = scr + '/conf'
os.chdir(scr)
sys.path[:0] = [os.path.dirname(os.path.dirname(os.path.abspath(__file__))),
                os.environ.get('VF_REPO', '/repo')]

from vf import core  # noqa: E402
from vf.sim.drive import SCase, run_async  # noqa: E402


def spec_for(tasks, fcp, custom=None, retries=None):
    """Minimal harness AST (only used for job scripts / point maps); the
    workflow itself is the FLOW text below."""
    return {
        'mode': 'integer', 'icp': 1, 'fcp': fcp, 'tasks': tasks,
        'custom': custom or {}, 'retries': retries or {}, 'extra': {},
        'opt': {t: {'succ': False, 'submit': False, 'fail_required': False,
                    'custom': {}} for t in tasks},
        'sections': [{'rec': {'kind': 'P', 'step': 1, 'off': 0, 'excl': []},
                      'lines': [{'lhs': None, 'rhs': [t]} for t in tasks]}],
    }


def pool(sim):
    return {f"{t['cycle']}/{t['name']}": t for t in sim.pool_snapshot()}


def show(sim, title):
    print(title)
    for ident, t in sorted(pool(sim).items()):
        print(f"    {ident}: status={t['status']} held={bool(t['held'])} "
              f"flows={t['flows']} submit_num={t['submit_num']} "
              f"outputs={t['outputs']}")
    if not pool(sim):
        print('    (empty)')


async def fair_round(sc, only=None):
    """Everything pending returns, every job (of task `only`) takes one
    step, every message is delivered, one main-loop iteration."""
    sim = sc.sim
    for it in sim.pending_cmds():
        sim.mark_returned(it)
    for job in sorted(sim.live_jobs(), key=lambda j: j.key):
        if only is None or job.name == only:
            sim.advance(job)
    for m in list(sim.inflight):
        sim.deliver(m)
    await sc.drv.loop()


def table(sim, name):
    con = sqlite3.connect(sim.schd.workflow_db_mgr.pri_path)
    try:
        return con.execute(f'SELECT * FROM {name}').fetchall()
    finally:
        con.close()


def make_ctx():
    return core.Ctx('C19', 'quick', 1, 0, 1, scr, core.Collector('C19'))

FLOW = """
[scheduler]
    allow implicit tasks = True
[scheduling]
    cycling mode = integer
    initial cycle point = 1
    final cycle point = 1
    [[graph]]
        P1 = "a => b"
[runtime]
    [[root]]
        script = true
"""
SPEC = spec_for(['a', 'b'], 1)
CASE = {'spec': SPEC, 'schedule': [], 'outcomes': {}}


async def main():
    from cylc.flow import commands
    async with SCase(CASE, make_ctx(), flow_text=FLOW) as sc:
        sim = sc.sim
        # flow 1: a runs and succeeds, b starts (and keeps running)
        for _ in range(6):
            await fair_round(sc, only='a')
        job_b = sim.jobs[('1', 'b', 1)]
        sim.advance(job_b)                       # b: "started"
        await fair_round(sc, only='a')
        show(sim, 'flow 1, a done, b running:')
        # re-run a in a new flow; it succeeds and spawns b again -> merge
        await commands.run_cmd(commands.force_trigger_tasks(
            sim.schd, ['1/a'], ['new']))
        for _ in range(8):
            await fair_round(sc, only='a')
        show(sim, 'after `cylc trigger --flow=new //1/a` has run:')
        before = pool(sim)['1/b']
        await sc.drv.stop_and_wait('now')
        print('task_outputs rows of 1/b after shutdown:')
        for row in table(sim, 'task_outputs'):
            if row[1] == 'b':
                print('   ', row)
        await sc.drv.restart()
        show(sim, 'pool after restart:')
        after = pool(sim)['1/b']
    return before, after


before, after = run_async(main())
shutil.rmtree(scr, ignore_errors=True)
if before['outputs'] != after['outputs']:
    print(f"NOT RESTORED: 1/b ({before['status']}, flows {before['flows']})"
          f" completed outputs {before['outputs']} -> {after['outputs']}")
    sys.exit(1)
