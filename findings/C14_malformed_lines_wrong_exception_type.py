"""C14: two kinds of malformed graph line are not rejected with a
GraphParseError but crash with another exception type.

(1) a bare suicide mark on the right: "a => !" / "a => b & !"
    -> ValueError("Unexpected graph expression: '!'") from
    GraphParser._compute_triggers (the '!' passes the node-format check
    because '!' is blanked out before nodes are validated).
(2) a parameter group whose item does not start with a name:
    "foo<+>", "foo<-1>", "foo<=1>", "foo<,>" (and "foo<m,>" when parameters
    are defined) -> AttributeError: 'NoneType' object has no attribute
    'groups' from GraphExpander.expand (REC_P_OFFS.match(item) is None).

Through `cylc validate` both surface as Python tracebacks instead of a graph
error.  Candidate fix: raise GraphParseError in _compute_triggers; check the
match in GraphExpander.expand and raise ParamExpandError.

Run: PYTHONPATH=/repo /venv/bin/python findings/C14_malformed_lines_wrong_exception_type.py
"""
from cylc.flow.graph_parser import GraphParser
from cylc.flow.exceptions import GraphParseError, ParamExpandError

bad = 0
for g in ['a => !', 'a => b & !', 'foo<+> => a', 'foo<-1>', 'foo<=1>',
          'foo<,>']:
    try:
        GraphParser().parse_graph(g)
        print(f'{g!r}: accepted')
    except (GraphParseError, ParamExpandError) as exc:
        print(f'{g!r}: clean rejection {type(exc).__name__}')
    except Exception as exc:
        bad += 1
        print(f'{g!r}: WRONG exception type {type(exc).__name__}: {exc}')
print('DEFECT REPRODUCED' if bad else 'not reproduced')
