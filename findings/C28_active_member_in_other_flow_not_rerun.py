"""C28 finding: `cylc trigger --flow=new` (or --flow=N) of a group does not
re-run a member that is in the pool in other flows only, unless it is a
group-start member.

Graph `a => b`.  1/a has succeeded and gone, 1/b is running (flow 1).
`cylc trigger --flow=new //1/a //1/b`:

  * expected (statement C28; `cylc trigger --help`: "Tasks will be removed
    if necessary to allow re-run without intervention, so triggered tasks
    that are preparing, submitted, or running may be killed"): 1/a runs
    again in flow 2, then 1/b runs again in flow 2 - as happens with the
    default flow option;
  * actual: 1/a runs again in flow 2; 1/b is neither killed nor re-run: its
    running flow-1 job is merely merged into flows {1,2} when 1/a succeeds.
    One member of the group never "runs once more".  (If the old job of
    1/b happens to finish before 1/a's new job succeeds, 1/b has left the
    pool by then and is spawned and run in flow 2 after all: the outcome
    depends on job timing.)

Cause (cylc/flow/commands.py): _force_trigger_tasks puts the active
non-start member into `active_to_remove`, but
_remove_matched_tasks(ids, flow_nums={2}) removes a pooled task only if
`itask.match_flows(flow_nums)` is non-empty; 1/b is in flow {1}, so it stays.
The respawn in the new flow, TaskPool._set_prereqs_tdef -> add_to_pool,
is then dropped silently ("not added to n=0: already exists", debug level).
The same happens to a waiting no-flow proxy under the default flow option,
and (waiting member with an off-group prerequisite) the off-group
prerequisite is then not satisfied either.  Candidate fix: remove
`active_to_remove` members from the pool regardless of their flows (or
merge the triggered flow into them and reset their prerequisites).

Drives the real Scheduler through the /verif stepped engine (vf.sim), since
a live job is needed.  Run:
    cd /verif && PYTHONPATH=/verif:/repo /venv/bin/python \
        findings/C28_active_member_in_other_flow_not_rerun.py
"""
import os
import shutil
import sys
import tempfile

scr = tempfile.mkdtemp(prefix='vf-finding-')
os.environ['HOME'] = scr + '/home'
os.makedirs(os.environ['HOME'])
os.environ['CYLC_CONF_PATH'] = scr + '/conf'
os.chdir(scr)
sys.path[:0] = [os.path.dirname(os.path.dirname(os.path.abspath(__file__))),
                os.environ.get('VF_REPO', '/repo')]

from vf import core  # noqa: E402
from vf.sim.drive import SCase, run_async  # noqa: E402


def atom(t):
    return {'t': t, 'off': None, 'abs': None, 'out': 'succeeded',
            'implicit': True, 'longform': False}


SPEC = {
    'mode': 'integer', 'icp': 1, 'fcp': 1, 'tasks': ['a', 'b'], 'custom': {},
    'opt': {t: {'succ': False, 'submit': False, 'fail_required': False,
                'custom': {}} for t in ('a', 'b')},
    'retries': {}, 'extra': {},
    'sections': [{'rec': {'kind': 'R1', 'at': 1, 'form': 0},
                  'lines': [{'lhs': atom('a'), 'rhs': ['b']}]}],
}


async def run(flow):
    from cylc.flow import commands
    ctx = core.Ctx('C28', 'quick', 1, 0, 1, scr, core.Collector('C28'))
    case = {'spec': SPEC, 'outcomes': {}, 'schedule': []}
    async with SCase(case, ctx) as sc:
        assert not sc.rejected, sc.rejected
        drv, sim = sc.drv, sc.sim

        async def fair_round(only=None):
            for it in sim.pending_cmds():
                sim.mark_returned(it)
            for job in sorted(sim.live_jobs(), key=lambda j: j.key):
                if only is None or job.name == only:
                    sim.advance(job)
            for msg in list(sim.inflight):
                sim.deliver(msg)
            await drv.loop()

        # run until 1/a has succeeded and 1/b is running
        for _ in range(30):
            b = sim.schd.pool._get_task_by_id('1/b')
            if b is not None and b.state.status == 'running':
                break
            await fair_round()
        b = sim.schd.pool._get_task_by_id('1/b')
        assert b is not None and b.state.status == 'running'
        print(f'--flow={flow or "(default)"}: before trigger pool =',
              [(t.identity, t.state.status, sorted(t.flow_nums))
               for t in sim.schd.pool.get_tasks()])
        await commands.run_cmd(commands.force_trigger_tasks(
            sim.schd, ['1/a', '1/b'], flow))
        # 1/b's (old) job is slow: 1/a's new job finishes first
        for _ in range(8):
            await fair_round(only='a')
        print('   after 1/a re-ran: pool =',
              [(t.identity, t.state.status, sorted(t.flow_nums))
               for t in sim.schd.pool.get_tasks()])
        await sc.drain()
        jobs = {}
        for ev in sim.trace:
            if ev['k'] == 'launch':
                jobs.setdefault(ev['name'], []).append(
                    (ev['submit_num'], ev.get('flows')))
        print('   job submissions (submit number, flows):', jobs)
        return jobs


async def main():
    jobs_default = await run([])
    jobs_new = await run(['new'])
    ok_default = len(jobs_default['b']) == 2
    bad_new = len(jobs_new['a']) == 2 and len(jobs_new['b']) == 1
    print('default flow: 1/b re-run after the trigger:', ok_default)
    print('DEFECT REPRODUCED: with --flow=new 1/a ran again but 1/b did not'
          if bad_new else 'not reproduced')
    return bad_new


try:
    ok = run_async(main())
finally:
    shutil.rmtree(scr, ignore_errors=True)
sys.exit(0 if ok else 1)
