"""C16: a one-off sequence returns its excluded point from get_next_point.

IntegerSequence.get_next_point, one-off branch:
    if point < self.p_start: return self.p_start
does not consult self.exclusions (the stepped branch does), so an excluded
one-off point is not valid (is_valid False, get_start_point None) but is
still returned as the next point.
"""
from cylc.flow.cycling.integer import IntegerSequence, IntegerPoint

seq = IntegerSequence('R1/5!5', '2', '9')
valid = [i for i in range(0, 12) if seq.is_valid(IntegerPoint(str(i)))]
nxt = seq.get_next_point(IntegerPoint('2'))
print(f"IntegerSequence('R1/5!5', '2', '9'): valid points {valid}, "
      f"start point {seq.get_start_point()}, get_next_point(2) -> {nxt} "
      f"(expected None)")
print('DEFECT REPRODUCED' if nxt is not None else 'not reproduced')
