"""C19 finding: completed outputs of pooled tasks that are waiting or
submitted are not restored on restart.

TaskPool.load_db_task_pool_for_restart() reloads the completed outputs
recorded in the task_outputs table only

    if itask.state(TASK_STATUS_RUNNING, TASK_STATUS_FAILED,
                   TASK_STATUS_SUBMIT_FAILED, TASK_STATUS_SUCCEEDED)

(TASK_STATUS_SUBMIT_FAILED was added by /repo commit f2572f8) so after a
stop + restart

  A. a *submitted* task has lost its `submitted` output;
  B. a task *waiting* for an execution retry (delay PT1H) has lost
     `submitted` and `started` (and any custom output) of the failed try;
  C. (repaired by f2572f8; shown for comparison) a retained *submit-failed*
     task keeps `submit-failed`.

C19 states that a restart restores every pooled task's completed outputs.
(Effect is mostly cosmetic for A - later messages imply `submitted` again -
but in B the outputs of the failed try are gone for good: if the retry does
not produce them again they are missing from the task's final outputs, cf.
signature C19:continued-run-final-outputs-differ:outputs-not-restored-at-
restart.)

Candidate fix: load the recorded outputs for every status (the DB column is
the truth for what has been completed), not only for the four listed.

Uses the verification harness (vf.sim: real Scheduler objects, single-stepped
main loop, virtual job cluster) because a stop/restart needs a scheduler.
Run: cd /verif && PYTHONPATH=/verif:/repo /venv/bin/python \
         findings/C19_outputs_not_reloaded_for_submitted_or_waiting_tasks.py
"""
import os
import shutil
import sqlite3
import sys
import tempfile

scr = tempfile.mkdtemp(prefix='vf-finding-')
os.environ['HOME'] = scr + '/home'
os.makedirs(os.environ['HOME'])
os.environ['CYLC_CONF_PATH'] = scr + '/conf'
os.chdir(scr)
sys.path[:0] = [os.path.dirname(os.path.dirname(os.path.abspath(__file__))),
                os.environ.get('VF_REPO', '/repo')]

from vf import core  # noqa: E402
from vf.sim.drive import SCase, run_async  # noqa: E402


def spec_for(tasks, fcp, custom=None, retries=None):
    """Minimal harness AST (only used for job scripts / point maps); the
    workflow itself is the FLOW text below."""
    return {
        'mode': 'integer', 'icp': 1, 'fcp': fcp, 'tasks': tasks,
        'custom': custom or {}, 'retries': retries or {}, 'extra': {},
        'opt': {t: {'succ': False, 'submit': False, 'fail_required': False,
                    'custom': {}} for t in tasks},
        'sections': [{'rec': {'kind': 'P', 'step': 1, 'off': 0, 'excl': []},
                      'lines': [{'lhs': None, 'rhs': [t]} for t in tasks]}],
    }


def pool(sim):
    return {f"{t['cycle']}/{t['name']}": t for t in sim.pool_snapshot()}


def show(sim, title):
    print(title)
    for ident, t in sorted(pool(sim).items()):
        print(f"    {ident}: status={t['status']} held={bool(t['held'])} "
              f"flows={t['flows']} submit_num={t['submit_num']} "
              f"outputs={t['outputs']}")
    if not pool(sim):
        print('    (empty)')


async def fair_round(sc, only=None):
    """Everything pending returns, every job (of task `only`) takes one
    step, every message is delivered, one main-loop iteration."""
    sim = sc.sim
    for it in sim.pending_cmds():
        sim.mark_returned(it)
    for job in sorted(sim.live_jobs(), key=lambda j: j.key):
        if only is None or job.name == only:
            sim.advance(job)
    for m in list(sim.inflight):
        sim.deliver(m)
    await sc.drv.loop()


def table(sim, name):
    con = sqlite3.connect(sim.schd.workflow_db_mgr.pri_path)
    try:
        return con.execute(f'SELECT * FROM {name}').fetchall()
    finally:
        con.close()


def make_ctx():
    return core.Ctx('C19', 'quick', 1, 0, 1, scr, core.Collector('C19'))

FLOW = """
[scheduler]
    allow implicit tasks = True
[scheduling]
    cycling mode = integer
    initial cycle point = 1
    final cycle point = 1
    [[graph]]
        P1 = "a & b & c"
[runtime]
    [[root]]
        script = true
    [[b]]
        execution retry delays = PT1H
"""
SPEC = spec_for(['a', 'b', 'c'], 1, retries={'b': {'exec': 1, 'submit': 0}})
# b's first job fails (then waits an hour for its retry); c's submission
# fails (no submission retries: retained as submit-failed); a's job is
# never advanced: it stays submitted
CASE = {'spec': SPEC, 'schedule': [],
        'outcomes': {'1/b': [{'final': 'failed'}, {'final': None}],
                     '1/c': [{'final': 'submit-fail'}]}}


async def main():
    bad = []
    async with SCase(CASE, make_ctx(), flow_text=FLOW) as sc:
        sim = sc.sim
        for _ in range(6):
            for it in sim.pending_cmds():
                sim.mark_returned(it)
            for job in sim.live_jobs():
                if job.name == 'b':
                    sim.advance(job)
            for m in list(sim.inflight):
                sim.deliver(m)
            await sc.drv.loop()
        show(sim, 'pool before `cylc stop --now`:')
        before = pool(sim)
        await sc.drv.stop_and_wait('now')
        print('task_outputs table after shutdown:')
        for row in table(sim, 'task_outputs'):
            print('   ', row)
        await sc.drv.restart()
        show(sim, 'pool after restart (before the first main-loop '
                  'iteration):')
        after = pool(sim)
        for ident, t in sorted(before.items()):
            if t['outputs'] != after[ident]['outputs']:
                bad.append(f"{ident} ({t['status']}): completed outputs "
                           f"{t['outputs']} -> {after[ident]['outputs']}")
    return bad


bad = run_async(main())
shutil.rmtree(scr, ignore_errors=True)
for b in bad:
    print('NOT RESTORED:', b)
sys.exit(1 if bad else 0)
