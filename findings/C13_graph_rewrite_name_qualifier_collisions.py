"""C13: valid trigger expressions whose prerequisite cannot be evaluated
because GraphParser._proc_dep_pair / _compute_triggers rewrite the
expression text with regexes / str.replace that also hit a *different* atom.

Run:  PYTHONPATH=/repo /venv/bin/python findings/C13_graph_rewrite_name_qualifier_collisions.py

Every workflow below is accepted by WorkflowConfig.  The left-hand side is
stored on the Dependency half-rewritten; Prerequisite.set_conditional_expr
cannot substitute the damaged atom and Prerequisite.is_satisfied() raises
(TriggerExpressionError / NameError) when the task is spawned in a
scheduler.  `cylc validate` only notices at the initial cycle point
("ERROR: bad trigger"), `cylc play` does not check at all.

(2b) implicit-succeeded-name-equals-qualifier-token: r'NAME(?![\\[:])' for an
    implicit task "x" matches the qualifier of "a:x" (custom output x of
    another task): "a:x:succeeded".
(3) short-qualifier-before-hyphen: r'NAME:short\\b(?![\\[:])' for "a:fail"
    matches the head of "a:fail-safe" (custom output): "a:failed-safe".
(4) finish-name-suffix: expr.replace("a:finished", "(a:succeeded|a:failed)")
    also rewrites the tail of "aa:finished": "a(...)".

Three sibling defects found by the same check were fixed in /repo by commits
c10e22a and 86a328e (offset form + short qualifier `a[-P1]:succeeded |
a[-P1]:succeed`; implicit name inside a hyphenated name `a | a-x`; names
ending in + % @ - `foo+[-P1] | b`); they are listed last as regression guards
and not counted.
"""
import tempfile
from pathlib import Path

from cylc.flow.config import WorkflowConfig
from cylc.flow.cycling.loader import get_point
from cylc.flow.id import Tokens
from cylc.flow.scripts.validate import ValidateOptions
from cylc.flow.task_proxy import TaskProxy

CASES = [
    ('implicit-succeeded-name-equals-qualifier-token',
     'a:x | x => tgt',
     '    [[a]]\n        [[[outputs]]]\n            x = x done'),
    ('short-qualifier-before-hyphen',
     'a:fail? | a:fail-safe? => tgt',
     '    [[a]]\n        [[[outputs]]]\n            fail-safe = failed safely'),
    ('finish-name-suffix',
     'a:finish | aa:finish => tgt', ''),
]
FIXED = [
    ('(fixed c10e22a) offset-short-qualifier-prefix',
     'a\n a[-P1]:succeeded | a[-P1]:succeed => tgt', ''),
    ('(fixed 86a328e) implicit-succeeded-name-token-inside-other-name',
     'a | a-x => tgt', ''),
    ('(fixed 86a328e) name-ends-nonword',
     'foo+\n foo+[-P1] | b => tgt', ''),
]

wrong = 0
for label, graph, runtime in CASES + FIXED:
    d = Path(tempfile.mkdtemp())
    (d / 'flow.cylc').write_text(f'''
[scheduler]
    allow implicit tasks = True
[scheduling]
    cycling mode = integer
    initial cycle point = 1
    [[graph]]
        P1 = """
            {graph}
        """
[runtime]
    [[root]]
{runtime}
''')
    cfg = WorkflowConfig('w', str(d / 'flow.cylc'), ValidateOptions())
    itask = TaskProxy(
        Tokens('~u/w'), cfg.taskdefs['tgt'], get_point('2').standardise())
    print(f'--- {label}:  {graph.splitlines()[-1].strip()}')
    for prereq in itask.state.prerequisites:
        print('    conditional expression:', prereq.conditional_expression)
    try:
        print('    satisfied:', itask.state.prerequisites_all_satisfied())
    except Exception as exc:
        if (label, graph, runtime) in CASES:
            wrong += 1
        print(f'    is_satisfied() raised {type(exc).__name__}: '
              f'{str(exc).splitlines()[-1]}')

print()
print(f'WRONG: {wrong}/{len(CASES)} accepted trigger expressions cannot be '
      'evaluated' if wrong else 'ok: not reproduced')
