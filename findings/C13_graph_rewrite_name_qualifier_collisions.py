"""C13 (ALL FIXED in /repo - kept as a regression guard): valid trigger
expressions whose prerequisite could not be evaluated because
GraphParser._proc_dep_pair / _compute_triggers rewrote the expression text
with regexes / str.replace that also hit a *different* atom.

Run:  PYTHONPATH=/repo /venv/bin/python findings/C13_graph_rewrite_name_qualifier_collisions.py

Found by the C13 check (signatures C13:graph-rewrite:*), fixed in /repo by
the commits named below; on a tree without those commits every workflow is
accepted by WorkflowConfig and Prerequisite.is_satisfied() raises
(TriggerExpressionError / NameError) when the task is spawned.

(1) c10e22a offset-short-qualifier-prefix: `a[-P1]:succeeded | a[-P1]:succeed`
(2) 86a328e implicit-succeeded-name-token-inside-other-name: `a | a-x`
(2b) 65bf15a implicit-succeeded-name-equals-qualifier-token: `a:x | x`
(3) b8d1faf short-qualifier-before-hyphen: `a:fail? | a:fail-safe?`
(4) 237f8ab finish-name-suffix: `a:finish | aa:finish`
(5) 86a328e name-ends-nonword: `foo+[-P1] | b`
"""
import tempfile
from pathlib import Path

from cylc.flow.config import WorkflowConfig
from cylc.flow.cycling.loader import get_point
from cylc.flow.id import Tokens
from cylc.flow.scripts.validate import ValidateOptions
from cylc.flow.task_proxy import TaskProxy

CASES = [
    ('offset-short-qualifier-prefix',
     'a\n a[-P1]:succeeded | a[-P1]:succeed => tgt', ''),
    ('implicit-succeeded-name-token-inside-other-name',
     'a | a-x => tgt', ''),
    ('implicit-succeeded-name-equals-qualifier-token',
     'a:x | x => tgt',
     '    [[a]]\n        [[[outputs]]]\n            x = x done'),
    ('short-qualifier-before-hyphen',
     'a:fail? | a:fail-safe? => tgt',
     '    [[a]]\n        [[[outputs]]]\n            fail-safe = safe stop'),
    ('finish-name-suffix',
     'a:finish | aa:finish => tgt', ''),
    ('name-ends-nonword',
     'foo+\n foo+[-P1] | b => tgt', ''),
]
FIXED = []

wrong = 0
for label, graph, runtime in CASES + FIXED:
    d = Path(tempfile.mkdtemp())
    (d / 'flow.cylc').write_text(f'''
[scheduler]
    allow implicit tasks = True
[scheduling]
    cycling mode = integer
    initial cycle point = 1
    [[graph]]
        P1 = """
            {graph}
        """
[runtime]
    [[root]]
{runtime}
''')
    cfg = WorkflowConfig('w', str(d / 'flow.cylc'), ValidateOptions())
    itask = TaskProxy(
        Tokens('~u/w'), cfg.taskdefs['tgt'], get_point('2').standardise())
    print(f'--- {label}:  {graph.splitlines()[-1].strip()}')
    for prereq in itask.state.prerequisites:
        print('    conditional expression:', prereq.conditional_expression)
    try:
        print('    satisfied:', itask.state.prerequisites_all_satisfied())
    except Exception as exc:
        if (label, graph, runtime) in CASES:
            wrong += 1
        print(f'    is_satisfied() raised {type(exc).__name__}: '
              f'{str(exc).splitlines()[-1]}')

print()
print(f'WRONG: {wrong}/{len(CASES)} accepted trigger expressions cannot be '
      'evaluated' if wrong else 'ok: not reproduced')
