"""C14: malformed node syntax is only detected on the LAST line of a graph.

GraphParser.parse_graph, node-syntax check:

    bad_lines = []
    for line in full_lines:
        ...
        bad_lines = [node_str for node in node_str.split()
                     if self.__class__.REC_NODE_FULL.sub('', node, 1)]
    if bad_lines:
        self._report_invalid_lines(bad_lines)

`bad_lines` is re-assigned for every line, so only the last line's result
survives the loop.  A malformed node on any earlier line is parsed into
something else instead of raising "Bad graph node format".

Run: PYTHONPATH=/repo /venv/bin/python findings/C14_bad_node_format_checked_on_last_line_only.py
"""
from cylc.flow.graph_parser import GraphParser
from cylc.flow.exceptions import GraphParseError

bad = 0
for broken in ['a:fail[-P1] => b',      # qualifier before offset
               'a? b => c',             # missing operator
               'a[-P1]x => b']:         # text after offset
    for graph, where in [(broken, 'only line'),
                         ('y => z\n' + broken, 'last line'),
                         (broken + '\ny => z', 'first line')]:
        gp = GraphParser()
        try:
            gp.parse_graph(graph)
        except GraphParseError as exc:
            print(f'{broken!r} as {where}: GraphParseError '
                  f'({str(exc).splitlines()[0]})')
        else:
            bad += 1
            trig = {k: list(v) for k, v in gp.triggers.items()}
            print(f'{broken!r} as {where}: ACCEPTED, parsed into {trig}')
print('DEFECT REPRODUCED' if bad else 'not reproduced')
