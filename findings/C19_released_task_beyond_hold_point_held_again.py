"""C19 finding: a task beyond the hold point that was released individually
comes back held after a restart.

`cylc hold --after=1` holds every task beyond point 1 and records the hold
point; `cylc release <workflow>//2/a` then releases one of them.  On restart
Scheduler.configure() re-applies the restored hold point with

    await commands.run_cmd(commands.set_hold_point(self, holdcp))
    -> TaskPool.set_hold_point(): for itask in pool: if itask.point > point:
                                      self.hold_active_task(itask)

after the pool has been loaded with the recorded per-task `is_held` flags
(task_pool.is_held = 0 for 2/a), so the individually released task is held
again and will not run until released a second time.

C19: a restart restores every pooled task's held state (together with the
hold point).

Candidate fix: on restart only restore `pool.hold_point` (the held flags of
pooled tasks and the tasks_to_hold set come from the DB); apply
set_hold_point() to the pool only when the hold point comes from the
command line / configuration of a fresh start.

Uses the verification harness (vf.sim: real Scheduler objects, single-stepped
main loop, virtual job cluster) because a stop/restart needs a scheduler.
Run: cd /verif && PYTHONPATH=/verif:/repo /venv/bin/python \
         findings/C19_released_task_beyond_hold_point_held_again.py
"""
import os
import shutil
import sqlite3
import sys
import tempfile

scr = tempfile.mkdtemp(prefix='vf-finding-')
os.environ['HOME'] = scr + '/home'
os.makedirs(os.environ['HOME'])
os.environ['CYLC_CONF_PATH'] = scr + '/conf'
os.chdir(scr)
sys.path[:0] = [os.path.dirname(os.path.dirname(os.path.abspath(__file__))),
                os.environ.get('VF_REPO', '/repo')]

from vf import core  # noqa: E402
from vf.sim.drive import SCase, run_async  # noqa: E402


def spec_for(tasks, fcp, custom=None, retries=None):
    """Minimal harness AST (only used for job scripts / point maps); the
    workflow itself is the FLOW text below."""
    return {
        'mode': 'integer', 'icp': 1, 'fcp': fcp, 'tasks': tasks,
        'custom': custom or {}, 'retries': retries or {}, 'extra': {},
        'opt': {t: {'succ': False, 'submit': False, 'fail_required': False,
                    'custom': {}} for t in tasks},
        'sections': [{'rec': {'kind': 'P', 'step': 1, 'off': 0, 'excl': []},
                      'lines': [{'lhs': None, 'rhs': [t]} for t in tasks]}],
    }


def pool(sim):
    return {f"{t['cycle']}/{t['name']}": t for t in sim.pool_snapshot()}


def show(sim, title):
    print(title)
    for ident, t in sorted(pool(sim).items()):
        print(f"    {ident}: status={t['status']} held={bool(t['held'])} "
              f"flows={t['flows']} submit_num={t['submit_num']} "
              f"outputs={t['outputs']}")
    if not pool(sim):
        print('    (empty)')


async def fair_round(sc, only=None):
    """Everything pending returns, every job (of task `only`) takes one
    step, every message is delivered, one main-loop iteration."""
    sim = sc.sim
    for it in sim.pending_cmds():
        sim.mark_returned(it)
    for job in sorted(sim.live_jobs(), key=lambda j: j.key):
        if only is None or job.name == only:
            sim.advance(job)
    for m in list(sim.inflight):
        sim.deliver(m)
    await sc.drv.loop()


def table(sim, name):
    con = sqlite3.connect(sim.schd.workflow_db_mgr.pri_path)
    try:
        return con.execute(f'SELECT * FROM {name}').fetchall()
    finally:
        con.close()


def make_ctx():
    return core.Ctx('C19', 'quick', 1, 0, 1, scr, core.Collector('C19'))

FLOW = """
[scheduler]
    allow implicit tasks = True
[scheduling]
    cycling mode = integer
    initial cycle point = 1
    final cycle point = 3
    runahead limit = P2
    [[graph]]
        P1 = "a"
[runtime]
    [[root]]
        script = true
"""
SPEC = spec_for(['a'], 3)
CASE = {'spec': SPEC, 'schedule': [], 'outcomes': {}}


async def main():
    from cylc.flow import commands
    async with SCase(CASE, make_ctx(), flow_text=FLOW) as sc:
        sim = sc.sim
        await commands.run_cmd(commands.set_hold_point(sim.schd, '1'))
        show(sim, 'after `cylc hold --after=1`:')
        await commands.run_cmd(commands.release(sim.schd, ['2/a']))
        show(sim, 'after `cylc release //2/a`:')
        before = {i: bool(t['held']) for i, t in pool(sim).items()}
        await sc.drv.stop_and_wait('now')
        print('task_pool table (cycle, name, flows, status, is_held):')
        for row in table(sim, 'task_pool'):
            print('   ', row)
        await sc.drv.restart()
        show(sim, 'after restart (hold point %s):' % sim.schd.pool.hold_point)
        after = {i: bool(t['held']) for i, t in pool(sim).items()}
    return before, after


before, after = run_async(main())
shutil.rmtree(scr, ignore_errors=True)
if before != after:
    print(f'HELD STATE NOT RESTORED: {before} -> {after}')
    sys.exit(1)
