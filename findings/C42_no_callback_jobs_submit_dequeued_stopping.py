"""C42: a jobs-submit command that is already queued when the pool is told to
stop is dropped by process() without any callback.

Run:  PYTHONPATH=/repo /venv/bin/python findings/C42_no_callback_jobs_submit_dequeued_stopping.py

put_command() AFTER set_stopping() reports a jobs-submit command back through
its callback (ret_code 999); but if the same command was queued BEFORE
set_stopping(), process() dequeues it and calls `_run_command_exit(ctx)`
WITHOUT the callback, so the submitter is never told.
"""
import os
import tempfile

os.environ.setdefault('CYLC_CONF_PATH', tempfile.mkdtemp())

from cylc.flow.subprocctx import SubProcContext
from cylc.flow.subprocpool import SubProcPool

pool = SubProcPool()
calls = []
ctx = SubProcContext(SubProcPool.JOBS_SUBMIT, ['true'])
pool.put_command(ctx, callback=lambda c, *a: calls.append((c.ret_code, a)),
                 callback_args=['x'])
pool.set_stopping()
pool.process()
print('queued:', len(pool.queuings), 'running:', len(pool.runnings))
print('ctx.ret_code =', ctx.ret_code, '| ctx.err =', repr(ctx.err))
print('callback invocations:', calls)

# for comparison: the same command put after set_stopping() does get it
calls2 = []
ctx2 = SubProcContext(SubProcPool.JOBS_SUBMIT, ['true'])
pool.put_command(ctx2, callback=lambda c, *a: calls2.append((c.ret_code, a)),
                 callback_args=['x'])
print('put after set_stopping -> callback invocations:', calls2)
pool.terminate()
if not calls:
    print('WRONG: queued jobs-submit command was dropped by process() while '
          'stopping (ret_code 999 set on ctx) but its callback was never '
          'called')
    raise SystemExit(1)
print('ok: callback was called')
