"""C01 finding (same root cause as
C01_absolute_plus_preinitial_parent_never_spawned.py): a dependent of a
completed absolute trigger that is not the first instance of its task is
never spawned when its other (non-absolute) parents stay silent.

    initial cycle point = 1, final cycle point = 3
    P1 = b?
    P1 = b[2]:fail? | b:succeed? => a?

b.2 fails (success is optional).  At cycle 2 the prerequisite of a.2 is
"b.2:failed | b.2:succeeded", which is true, but:
  * the output b.2:failed belongs to the absolute trigger b[2]:fail, whose
    only listed graph child is the first instance a.1 (later instances are
    expected to be auto-spawned as parentless tasks and are only updated if
    they already are in the pool);
  * a.2 is not parentless (it has the regular parent b.2) so it is not
    auto-spawned, and the regular parent never produces the output
    (succeeded) that would spawn it.
a.1 and a.3 run (b.1, b.3 succeed), a.2 never does.

The registered check C01 shows it end to end (signature
C01:missing-run:absolute-parent-done-other-parents-silent-not-first-child).

Run: PYTHONPATH=/repo /venv/bin/python findings/C01_absolute_or_silent_parent_never_spawned.py
"""
import os, tempfile
d = tempfile.mkdtemp()
os.environ['HOME'] = d
open(f'{d}/flow.cylc', 'w').write('''
[scheduler]
    allow implicit tasks = True
[scheduling]
    cycling mode = integer
    initial cycle point = 1
    final cycle point = 3
    [[graph]]
        P1 = b?
        P1 = b[2]:fail? | b:succeed? => a?
''')
from cylc.flow.config import WorkflowConfig
from cylc.flow.scripts.validate import ValidateOptions
from cylc.flow.cycling.loader import get_point
from cylc.flow.taskdef import generate_graph_children
cfg = WorkflowConfig('w', f'{d}/flow.cylc', ValidateOptions())
a, b = cfg.taskdefs['a'], cfg.taskdefs['b']
icp = get_point('1')
p2 = get_point('2')
kids = generate_graph_children(b, p2)
show = {k: [(n, str(p), abs_) for n, p, abs_ in v] for k, v in kids.items()}
print('graph children of b.2 by output:', show)
print('a.2 parentless:', a.is_parentless(p2, icp))
by_failed = [(n, str(p)) for n, p, _ in kids.get('failed', [])]
assert ('a', '2') not in by_failed and not a.is_parentless(p2, icp), \
    'defect not present'
print('DEFECT: b.2:failed satisfies the prerequisite of a.2 but its only '
      'graph child is', by_failed, '- and a.2 is not parentless: if b.2 '
      'does not also succeed nothing ever spawns a.2')
