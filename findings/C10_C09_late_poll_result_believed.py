"""C10 / C09 finding: a poll result that comes back *after* the job's failure
message has been processed is believed, and moves the task back from
failed to running.

History (one task `a`, no retries, real Scheduler on the virtual cluster):

    1. job a/01 is running; a poll of a is launched (user `cylc poll`, or
       any interval poll): it reads the job status file -> "running"
    2. the job fails; its `failed/ERR` message arrives and is processed:
       task a: running -> failed, output `failed` complete, retained as
       incomplete, scheduler reports a stall
    3. the poll command returns with what it saw at step 1
       -> TaskJobManager._poll_task_job_callback calls
          process_message(itask, 'started', flag=FLAG_POLLED)
       -> the backward guard in process_message only applies to
          FLAG_RECEIVED, so _process_message_started resets the task
          failed -> running

Result: the task is `running` with output `failed` complete although its
latest (only) job ended failed, and it stays so until some later poll
(default execution polling interval: 15 min) - C10 "final status matches
the latest job's actual outcome" and C09 "status only changes along the
lifecycle" are both broken by this one root cause.

The code knows the scenario: _process_message_check ignores such a message
"if task has a retry lined up (caused by polling overlapping with task
failure)", but only when the failed task went back to waiting for a retry;
process_message's docstring says results of polls are always believed,
"the best we can do without somehow uniquely associating each poll with
its result message".  Not repaired here: a repair needs exactly that
association (poll launch time vs. time of the last processed message),
which is a design change, not a minimal patch.

Run: cd /verif && PYTHONPATH=/verif:/repo /venv/bin/python \
         findings/C10_C09_late_poll_result_believed.py
"""
import os
import shutil
import sys
import tempfile

scr = tempfile.mkdtemp(prefix='vf-finding-')
os.environ['HOME'] = scr + '/home'
os.makedirs(os.environ['HOME'])
os.environ['CYLC_CONF_PATH'] = scr + '/conf'
os.chdir(scr)
sys.path[:0] = [os.path.dirname(os.path.dirname(os.path.abspath(__file__))),
                os.environ.get('VF_REPO', '/repo')]

from vf import core  # noqa: E402
from vf.sim.drive import SCase, run_async  # noqa: E402

SPEC = {
    'mode': 'integer', 'icp': 1, 'fcp': 1, 'tasks': ['a'], 'custom': {},
    'opt': {'a': {'succ': False, 'submit': False, 'fail_required': False,
                  'custom': {}}},
    'retries': {}, 'extra': {},
    'sections': [{'rec': {'kind': 'P', 'step': 1, 'off': 0, 'excl': []},
                  'lines': [{'lhs': None, 'rhs': ['a']}]}],
}
CASE = {'spec': SPEC, 'outcomes': {'1/a': [{'final': 'failed'}]},
        'schedule': []}


async def main():
    ctx = core.Ctx('C10', 'quick', 1, 0, 1, scr, core.Collector('C10'))
    async with SCase(CASE, ctx) as sc:
        assert not sc.rejected, sc.rejected
        drv, sim = sc.drv, sc.sim

        def status():
            t = sim.schd.pool.get_tasks()[0]
            return t.state.status, sorted(
                t.state.outputs.get_completed_outputs())

        async def loops(n):
            for _ in range(n):
                await drv.loop()

        await loops(3)                       # a/01 prepared and launched
        await drv.step('ret', 0)             # jobs-submit returns
        await loops(1)
        await drv.step('adv', 0)             # job emits "started"
        await drv.step('del', 0)
        await loops(1)
        print('after started          :', status())
        await drv.step('poll', 0)            # user poll queued ...
        await loops(1)                       # ... and launched: sees running
        await drv.step('adv', 0)             # job emits failed/ERR
        await drv.step('del', 0)
        await loops(1)
        print('after failed message   :', status())
        assert status()[0] == 'failed'
        await drv.step('ret', 0)             # the poll command returns now
        await loops(2)
        st = status()
        print('after late poll result :', st)
        for ev in sim.trace:
            if ev['k'] == 'state' and ev['before'][0] != ev['after'][0]:
                print('   ', ev['before'][0], '->', ev['after'][0],
                      'via', ev['site'][-1], '(late poll result)'
                      if ev.get('stale_poll') else '')
        return st


try:
    st = run_async(main())
finally:
    shutil.rmtree(scr, ignore_errors=True)
assert st[0] == 'running' and 'failed' in st[1], 'defect not present'
print('DEFECT: task is "running" with output "failed" complete; its only '
      'job has failed')
