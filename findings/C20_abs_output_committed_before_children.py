"""C20: an absolute-trigger output is committed before its children are spawned; a crash in between loses them.

For an output with absolute-trigger children (`a[^]:x => b`)
spawn_on_output() does put_insert_abs_output() + process_queued_ops() FIRST
(committing, with it, the parent's task_outputs row that already contains x)
and only then spawns / satisfies the children, which reach the database at the
end of the iteration.  Killed in between, the restarted scheduler loads the
parent as running with x already complete, so the polled message x is a
duplicate and spawn_on_output(x) is never called again; abs_outputs_done is
loaded, but it is only applied in spawn_task(), not to tasks loaded from the
pool.  The children are never spawned (or stay unsatisfied) and the workflow
stalls.
Contradicts C20 clause 1.

How to run:  PYTHONPATH=/verif:/repo /venv/bin/python findings/C20_abs_output_committed_before_children.py

This reproduction drives the REAL cylc Scheduler with the stepped-scheduler
harness of the verification framework (vf.sim engine + vf/props/c20.py): a
plain script is impractical because the scheduler has to be killed at one
exact database statement / main-loop position.  Every scheduler incarnation
below runs in its own forked child process and "killed" means
os._exit(137) in that child (no shutdown code, no commit, open transaction
abandoned); jobs are scripted on a virtual cluster; the next incarnation is a
new Scheduler object in a new process on the same run directory.
Candidate minimal fix: spawn the children before the early commit (or drop it and rely on the end-of-iteration commit), and apply abs_outputs_done to the tasks loaded by load_db_task_pool_for_restart.
"""
import json
import os
import sys

sys.path[:0] = [os.environ.get('VF_ROOT', '/verif'),
                os.environ.get('VF_REPO', '/repo')]
import vf.props.c20 as c20  # noqa: E402

# kills = [[class index into c20.KILL_CLASSES, n-th point of that class,
#           effect number of a second kill in the restarted scheduler (0 =
#           none), job progress while down (0 none / 1 one step / 2 to end)]]
CASE = json.loads(r'''{"spec": {"mode": "integer", "icp": 1, "fcp": 2, "retries": {}, "extra": {}, "custom": {"a": {"x": "x"}}, "tasks": ["a", "b"], "opt": {"a": {"succ": false, "submit": false, "fail_required": false, "custom": {"x": false}}, "b": {"succ": false, "submit": false, "fail_required": false, "custom": {}}}, "sections": [{"rec": {"kind": "R1", "at": 1, "form": 0}, "lines": [{"lhs": null, "rhs": ["a"]}]}, {"rec": {"kind": "P", "step": 1, "off": 0, "excl": []}, "lines": [{"lhs": {"t": "a", "off": null, "abs": 1, "out": "x", "implicit": false, "longform": false, "form": 0}, "rhs": ["b"]}]}]}, "outcomes": {}, "ret_delays": [], "kills": [[1, 0, 0, 0]]}''')

if __name__ == '__main__':
    res = c20.explain(CASE)
    want = 'C20:instance-never-run-after-crash-restart:output-committed-before-children-spawned-or-satisfied'
    ok = any(v.sig == want for v in res.violations)
    print()
    print('REPRODUCED' if ok else 'NOT REPRODUCED', want)
    sys.exit(0 if ok else 1)
