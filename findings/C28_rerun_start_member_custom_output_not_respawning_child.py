"""C28 finding: after a group trigger, a member that depends on a *custom*
output of a re-run group-start member is not run again when that member's
proxy was retained in the pool (failed / incomplete) and still carries the
output from its previous job.

Graph `a:x => b` (x = custom output of a).  Job 1/a/01 emits x, then fails:
1/a stays in the pool as failed (incomplete), 1/b has run on 1/a:x.
`cylc trigger //1/a //1/b`  (re-run the sub-graph, the documented use):

  * 1/a (group start, no live job) is re-queued and job 02 runs: started,
    x, succeeded;
  * 1/b has the in-group prerequisite 1/a:x and was removed to run again
    after it (statement C28: "each member runs once more ... other members
    run only after their in-group prerequisites are satisfied");
  * actual: 1/b never runs again; the workflow finishes without it.

Cause: the outputs of the retained 1/a proxy are not reset when it is
re-queued, so for job 02's message "x"
TaskOutputs.set_message_complete() returns False ("already completed") and
TaskEventsManager.process_message() falls into the "unhandled message"
branch: spawn_children() is only called for a custom output
`elif output_completed:`; standard outputs (started, succeeded, ...) call
spawn_children() unconditionally, which is why `a => b` works.  Candidate
fix: reset the outputs of a group-start member when it is re-queued by
_force_trigger_tasks (as removal + re-spawn does for the other members), or
call spawn_children() for repeated custom outputs of a new job.

Drives the real Scheduler through the /verif stepped engine.  Run:
    cd /verif && PYTHONPATH=/verif:/repo /venv/bin/python \
        findings/C28_rerun_start_member_custom_output_not_respawning_child.py
"""
import os
import shutil
import sys
import tempfile

scr = tempfile.mkdtemp(prefix='vf-finding-')
os.environ['HOME'] = scr + '/home'
os.makedirs(os.environ['HOME'])
os.environ['CYLC_CONF_PATH'] = scr + '/conf'
os.chdir(scr)
sys.path[:0] = [os.path.dirname(os.path.dirname(os.path.abspath(__file__))),
                os.environ.get('VF_REPO', '/repo')]

from vf import core  # noqa: E402
from vf.sim.drive import SCase, run_async  # noqa: E402

SPEC = {
    'mode': 'integer', 'icp': 1, 'fcp': 1, 'tasks': ['a', 'b'],
    'custom': {'a': {'x': 'the x'}},
    'opt': {'a': {'succ': False, 'submit': False, 'fail_required': False,
                  'custom': {'x': False}},
            'b': {'succ': False, 'submit': False, 'fail_required': False,
                  'custom': {}}},
    'retries': {}, 'extra': {},
    'sections': [{'rec': {'kind': 'R1', 'at': 1, 'form': 0},
                  'lines': [{'lhs': {'t': 'a', 'off': None, 'abs': None,
                                     'out': 'x', 'implicit': True,
                                     'longform': False},
                             'rhs': ['b']}]}],
}
# job 01 of 1/a: started, x, failed; job 02: started, x, succeeded
CASE = {'spec': SPEC, 'schedule': [],
        'outcomes': {'1/a': [{'final': 'failed'}, {'final': 'succeeded'}]}}


async def main():
    from cylc.flow import commands
    ctx = core.Ctx('C28', 'quick', 1, 0, 1, scr, core.Collector('C28'))
    async with SCase(CASE, ctx) as sc:
        assert not sc.rejected, sc.rejected
        drv, sim = sc.drv, sc.sim
        print(drv.flow_text)
        await sc.drain()          # quiescent: 1/a failed, 1/b has run
        print('before trigger: pool',
              [(t.identity, t.state.status,
                sorted(t.state.outputs.get_completed_outputs()))
               for t in sim.schd.pool.get_tasks()],
              ' jobs:', sim.journal)
        await commands.run_cmd(commands.force_trigger_tasks(
            sim.schd, ['1/a', '1/b'], []))
        await sc.drain()
        print('after trigger + drain: jobs:', sim.journal,
              ' scheduler shut down:', not sim.running)
        jobs_b = [j for j in sim.journal if j[1] == 'b']
        bad = ('1', 'a', 2) in sim.journal and len(jobs_b) == 1
        print('DEFECT REPRODUCED: 1/a re-ran and emitted x again, 1/b did '
              'not run again' if bad else 'not reproduced')
        return bad


try:
    ok = run_async(main())
finally:
    shutil.rmtree(scr, ignore_errors=True)
sys.exit(0 if ok else 1)
