"""C20: a child spawned in the iteration of an early commit is lost by a crash before the end-of-iteration commit.

When a task finishes, spawn_on_output() spawns its children (their
task_states / task_outputs rows are queued by db_add_new_flow_rows) and
TaskPool.remove() then calls process_queued_ops() at once ("ensure this task is
written to the DB before moving on", #6315).  That early commit writes the
parent's final task_states row AND the child's row (waiting, submit 0), but
the task_pool table - the only thing a restart loads the pool from - is
rewritten at the end of the iteration.  Killed in between, the database has the
parent still `running` in task_pool and the child only in task_states.  The
restarted scheduler polls the parent, processes `succeeded`, and
spawn_task(child) finds history without outputs and refuses: "Not respawning
... - task was removed" (the suicide-trigger bodge).  The child and everything
downstream never run; the workflow shuts down as complete (or stalls).
Contradicts C20 clause 1.

How to run:  PYTHONPATH=/verif:/repo /venv/bin/python findings/C20_child_lost_after_early_commit.py

This reproduction drives the REAL cylc Scheduler with the stepped-scheduler
harness of the verification framework (vf.sim engine + vf/props/c20.py): a
plain script is impractical because the scheduler has to be killed at one
exact database statement / main-loop position.  Every scheduler incarnation
below runs in its own forked child process and "killed" means
os._exit(137) in that child (no shutdown code, no commit, open transaction
abandoned); jobs are scripted on a virtual cluster; the next incarnation is a
new Scheduler object in a new process on the same run directory.
Candidate minimal fix: make the early commit atomic with the pool (put_task_pool before process_queued_ops in remove()), or let spawn_task distinguish "waiting, submit 0, no job" history from a suicided task.
"""
import json
import os
import sys

sys.path[:0] = [os.environ.get('VF_ROOT', '/verif'),
                os.environ.get('VF_REPO', '/repo')]
import vf.props.c20 as c20  # noqa: E402

# kills = [[class index into c20.KILL_CLASSES, n-th point of that class,
#           effect number of a second kill in the restarted scheduler (0 =
#           none), job progress while down (0 none / 1 one step / 2 to end)]]
CASE = json.loads(r'''{"spec": {"mode": "integer", "icp": 1, "fcp": 1, "retries": {}, "extra": {}, "custom": {}, "tasks": ["a", "b"], "opt": {"a": {"succ": false, "submit": false, "fail_required": false, "custom": {}}, "b": {"succ": false, "submit": false, "fail_required": false, "custom": {}}}, "sections": [{"rec": {"kind": "R1", "at": 1, "form": 0}, "lines": [{"lhs": null, "rhs": ["a"]}, {"lhs": {"t": "a", "off": null, "abs": null, "out": "succeeded", "implicit": true, "longform": false}, "rhs": ["b"]}]}]}, "outcomes": {}, "ret_delays": [], "kills": [[1, 0, 0, 0]]}''')

if __name__ == '__main__':
    res = c20.explain(CASE)
    want = 'C20:instance-never-run-after-crash-restart:spawned-child-in-task_states-but-not-in-task_pool-at-crash'
    ok = any(v.sig == want for v in res.violations)
    print()
    print('REPRODUCED' if ok else 'NOT REPRODUCED', want)
    sys.exit(0 if ok else 1)
