"""C22: a broadcast submitted as a multi-key settings dict is only partly
persisted, so part of it is lost on restart.

The GraphQL `broadcast` mutation takes `settings: [BroadcastSetting]` where
BroadcastSetting is a GenericScalar; network/resolvers.py passes each dict
(after runtime_schema_to_cfg, which exists for dicts of several runtime
fields such as the UI's "Edit Runtime" sends) straight to
BroadcastMgr.put_broadcast.  put_broadcast applies EVERY key of the dict in
memory (addict) and reports the dict as modified, but
broadcast_report.get_broadcast_change_iter - used by
WorkflowDatabaseManager.put_broadcast to write broadcast_states /
broadcast_events - walks only `next(iter(value.items()))`, i.e. the FIRST key
at each nesting level.  All other keys never reach the DB; after a restart
(load_db_broadcast_states) they are gone although they were in force before.

Run:  PYTHONPATH=/repo /venv/bin/python findings/C22_multi_key_broadcast_lost_on_restart.py
"""
import os
import tempfile
from types import SimpleNamespace

from cylc.flow.broadcast_mgr import BroadcastMgr
from cylc.flow.broadcast_report import get_broadcast_change_iter
from cylc.flow.config import WorkflowConfig
from cylc.flow.run_modes import RunMode
from cylc.flow.scripts.validate import ValidateOptions
from cylc.flow.workflow_db_mgr import WorkflowDatabaseManager

d = tempfile.mkdtemp()
with open(os.path.join(d, 'flow.cylc'), 'w') as f:
    f.write('''
[scheduling]
    cycling mode = integer
    initial cycle point = 1
    [[graph]]
        P1 = foo
[runtime]
    [[foo]]
''')
cfg = WorkflowConfig('w', os.path.join(d, 'flow.cylc'), ValidateOptions())
os.makedirs(os.path.join(d, 'pri'))
os.makedirs(os.path.join(d, 'pub'))


class DataStore:
    def delta_broadcast(self):
        pass


def new_mgr(dbm):
    schd = SimpleNamespace(
        get_run_mode=lambda: RunMode.LIVE, workflow_db_mgr=dbm,
        data_store_mgr=DataStore(), config=cfg)
    mgr = BroadcastMgr(schd)
    mgr.linearized_ancestors.update(cfg.get_linearized_ancestors())
    return mgr


dbm = WorkflowDatabaseManager(os.path.join(d, 'pri'), os.path.join(d, 'pub'))
dbm.on_workflow_start(is_restart=False)
mgr = new_mgr(dbm)
setting = {'script': 'echo hi', 'environment': {'A': '1', 'B': '2'}}
modified, bad = mgr.put_broadcast(['1'], ['foo'], [setting])
print('put_broadcast accepted:', modified, 'bad options:', bad)
print('DB changes generated :', [
    (c['key'], c['value']) for c in get_broadcast_change_iter(modified)])
before = {k: dict(v) for k, v in mgr.broadcasts.items()}
dbm.process_queued_ops()       # main loop / shutdown writes the DB queue
dbm.on_workflow_shutdown()

# restart
dbm = WorkflowDatabaseManager(os.path.join(d, 'pri'), os.path.join(d, 'pub'))
dbm.on_workflow_start(is_restart=True)
mgr2 = new_mgr(dbm)
dbm.pri_dao.select_broadcast_states(mgr2.load_db_broadcast_states)
mgr2.post_load_db_coerce()
print('broadcasts before restart:', before)
print('broadcasts after restart :', mgr2.broadcasts)
print('DEFECT REPRODUCED' if mgr2.broadcasts != before else 'not reproduced')
