"""C34: <p=value> on a parameter whose values are a mix of digit strings and
other strings selects a wrong name, or crashes.

`[task parameters] p = 07, a, 3` is a list of strings ('072, a' is the
example in parsec/validate.py coerce_parameter_list).  For <p=value> both
NameExpander.expand and GraphExpander.expand convert the value with int()
whenever that works:

(1) zero-padded value: <p=07> becomes the integer 7, passes the membership
    test through item_in_iterable's int comparison, and is formatted as
    "foo_7" - a task that is not one of the instances of foo<p>
    (those are foo_07, foo_a, foo_3).
(2) any digit value that is not FIRST found by the int comparison:
    item_in_iterable() evaluates `int(item) in (int(i) for i in itt)`, and
    int('a') raises ValueError (not ParamExpandError) for the non-digit
    member of the list, e.g. <p=3> with p = 07, a, 3.

Run: PYTHONPATH=/repo /venv/bin/python findings/C34_specific_value_on_mixed_string_list.py
"""
from cylc.flow.param_expand import GraphExpander, NameExpander

params = ({'p': ['07', 'a', '3']}, {'p': '_%(p)s'})
print('instances of foo<p>:', sorted(GraphExpander(params).expand('foo<p>')))
bad = 0
for v in ['07', 'a', '3']:
    for cls, call in (
        ('GraphExpander', lambda: sorted(
            GraphExpander(params).expand(f'foo<p={v}>'))),
        ('NameExpander', lambda: [n for n, _ in NameExpander(
            params).expand(f'foo<p={v}>')]),
    ):
        try:
            got = call()
        except Exception as exc:
            bad += 1
            print(f'{cls} foo<p={v}>: WRONG: {type(exc).__name__}: {exc}')
            continue
        ok = got == [f'foo_{v}']
        bad += not ok
        print(f'{cls} foo<p={v}>: {got}' + ('' if ok else
              f'   WRONG: expected foo_{v}'))
print('DEFECT REPRODUCED' if bad else 'not reproduced')
