"""C46 finding (combination of two recorded C01/C46 findings): after a warm
start, a parentless instance of a task is never auto-spawned when the first
instance of the task at/after the start point has an absolute parent at/after
the start point plus a parent before the start point.

    cylc play --start-cycle-point=3   (initial 1, final 5)

    P1   = a                    # a has no prerequisites at 2 and 4
    R1/5 = b
    P2   = c
    P2   = b[5] & c[-P2] => a   # a.1, a.3, a.5

a.3 depends on b.5 (absolute) and on c.1, which lies before the start point
and counts as satisfied.  TaskDef.is_parentless(3, cutoff=3) is False for it
(not "all parents before the cutoff", not "only absolute triggers": the
recorded finding ...absolute-plus-preinitial-parents-not-first-child), and it
is not the first graph child of b.5 either (that is a.1), so a.3 never runs.
On top of that a.4 - no prerequisites at all - never runs: parentless
instances are only reached by TaskDef.next_point_parentless() from the start
point / from the previous instance, and that gives up at a.3 (the recorded
finding ...parentless-point-after-unspawned-parented-point, here with a point
that is "parented" only through the is_parentless gap).  The scheduler shuts
down as if complete.

Shown at function level.
Run: PYTHONPATH=/repo /venv/bin/python \
        findings/C46_parentless_point_after_unspawned_abs_plus_prestart_point.py
"""
import os
import tempfile

d = tempfile.mkdtemp()
os.environ['HOME'] = d
open(f'{d}/flow.cylc', 'w').write('''
[scheduler]
    allow implicit tasks = True
[scheduling]
    cycling mode = integer
    initial cycle point = 1
    final cycle point = 5
    [[graph]]
        P1 = a
        R1/5 = b
        P2 = c
        P2 = b[5] & c[-P2] => a
''')
from cylc.flow.config import WorkflowConfig
from cylc.flow.cycling.loader import get_point
from cylc.flow.scheduler_cli import RunOptions

cfg = WorkflowConfig('w', f'{d}/flow.cylc', RunOptions(startcp='3'))
print('start point:', cfg.start_point)
a = cfg.taskdefs['a']
start = get_point('3')
for p in '345':
    pt = get_point(p)
    print(f'a.{p}: parent points='
          f'{sorted(str(x) for x in a.get_parent_points(pt))} '
          f'is_parentless(cutoff=3)={a.is_parentless(pt, start)}')
first = a.next_point_parentless(start)
print('first parentless point of a from the start point ->', first,
      '(expected 4: a.4 has no prerequisites)')
assert a.is_parentless(get_point('4'), start)
assert first is None, 'defect not present'
print('DEFECT: a.4 is parentless but TaskPool.load_from_point() never '
      'spawns it (nor a.3): next_point_parentless() stops at a.3')
