"""C28 finding: messages of the job that a group trigger orphaned are
accepted by the re-spawned member, which then never runs again.

Graph `a => b`.  1/a has succeeded; 1/b is `preparing`: its jobs-submit
command (job 01) has been handed to the process pool but has not come back
yet.  `cylc trigger //1/a //1/b`:

  * 1/b has an in-group prerequisite, so it is removed from the pool to be
    re-run after 1/a ("triggered tasks that are preparing, submitted, or
    running may be killed" - a preparing task has no job to kill, and the
    jobs-submit command already in the process pool still submits job 01);
  * 1/a runs again and succeeds -> 1/b is spawned anew, waiting, with
    submit number 1 taken from the DB history;
  * job 01 (orphaned) reports started / succeeded before the new proxy has
    been submitted (here: in the same batch of messages as 1/a's
    "succeeded").  The messages carry submit number 1 == the new proxy's
    submit number, so they are accepted: the new 1/b goes waiting -> running
    -> succeeded and is removed.  It never "runs once more" after its
    in-group prerequisite (statement C28), although the scheduler says it
    succeeded in the triggered flow.

The same happens to a submitted/running member whose kill races with a
message already on its way.  Candidate fix: bump the submit number of a
re-spawned task past jobs that were launched for a removed proxy (e.g. take
it from the task_jobs table + pending submissions), or make the removed
proxy's pending submission a no-op.

Drives the real Scheduler through the /verif stepped engine (needs control
over when the jobs-submit command returns).  Run:
    cd /verif && PYTHONPATH=/verif:/repo /venv/bin/python \
        findings/C28_old_job_messages_complete_respawned_member.py
"""
import os
import shutil
import sys
import tempfile

scr = tempfile.mkdtemp(prefix='vf-finding-')
os.environ['HOME'] = scr + '/home'
os.makedirs(os.environ['HOME'])
os.environ['CYLC_CONF_PATH'] = scr + '/conf'
os.chdir(scr)
sys.path[:0] = [os.path.dirname(os.path.dirname(os.path.abspath(__file__))),
                os.environ.get('VF_REPO', '/repo')]

from vf import core  # noqa: E402
from vf.sim.drive import SCase, run_async  # noqa: E402


def atom(t):
    return {'t': t, 'off': None, 'abs': None, 'out': 'succeeded',
            'implicit': True, 'longform': False}


SPEC = {
    'mode': 'integer', 'icp': 1, 'fcp': 1, 'tasks': ['a', 'b'], 'custom': {},
    'opt': {t: {'succ': False, 'submit': False, 'fail_required': False,
                'custom': {}} for t in ('a', 'b')},
    'retries': {}, 'extra': {},
    'sections': [{'rec': {'kind': 'R1', 'at': 1, 'form': 0},
                  'lines': [{'lhs': atom('a'), 'rhs': ['b']}]}],
}


async def main():
    from cylc.flow import commands
    ctx = core.Ctx('C28', 'quick', 1, 0, 1, scr, core.Collector('C28'))
    case = {'spec': SPEC, 'outcomes': {}, 'schedule': []}
    async with SCase(case, ctx) as sc:
        assert not sc.rejected, sc.rejected
        drv, sim = sc.drv, sc.sim

        async def step(names):
            """one iteration in which only jobs/commands of `names` move"""
            for it in sim.pending_cmds():
                if any(j[1] in names for j in it.get('jobs', ())):
                    sim.mark_returned(it)
            for job in sorted(sim.live_jobs(), key=lambda j: j.key):
                if job.name in names:
                    sim.advance(job)
            for msg in list(sim.inflight):
                if msg['job'][1] in names:
                    sim.deliver(msg)
            await drv.loop()

        def b_state():
            b = sim.schd.pool._get_task_by_id('1/b')
            return None if b is None else (b.state.status, b.submit_num)

        # 1/a runs to success; 1/b's job 01 is launched, its submit command
        # does not return yet -> 1/b is "preparing"
        for _ in range(10):
            await step({'a'})
            if ('1', 'b', 1) in sim.journal:
                break
        print('1/b:', b_state(), ' jobs submitted:', sim.journal)
        assert b_state() == ('preparing', 1)
        await commands.run_cmd(commands.force_trigger_tasks(
            sim.schd, ['1/a', '1/b'], []))
        print('after trigger: 1/b in pool:', b_state())
        # 1/a's new job (02) runs; its "succeeded" and the messages of the
        # orphaned job 01 of 1/b reach the scheduler in the same main-loop
        # iteration (1/b is spawned anew while that batch is processed)
        for _ in range(4):
            for it in sim.pending_cmds():
                sim.mark_returned(it)
            await drv.loop()
        for _ in range(4):
            for job in sorted(sim.live_jobs(), key=lambda j: j.key):
                sim.advance(job)
        order = sorted(sim.inflight, key=lambda m: (m['job'][1], ))
        print('messages in flight:', [(m['job'], m['msg']) for m in order])
        for msg in order:
            sim.deliver(msg)
        await drv.loop()
        print('after that iteration: 1/b proxy:', b_state(),
              ' jobs submitted:', sim.journal)
        await sc.drain()
        jobs_b = [j for j in sim.journal if j[1] == 'b']
        print('end: jobs of 1/b ever submitted:', jobs_b,
              ' scheduler shut down:', not sim.running)
        bad = jobs_b == [('1', 'b', 1)] and not sim.running
        print('DEFECT REPRODUCED: 1/b was completed by its orphaned job 01 '
              'and never ran again' if bad else 'not reproduced')
        return bad


try:
    ok = run_async(main())
finally:
    shutil.rmtree(scr, ignore_errors=True)
sys.exit(0 if ok else 1)
