"""C16: get_nearest_prev_point recurses forever when the first point is excluded.

FIXED in /repo by 9adba84 (known_findings.json "fixed"); kept as a regression
script: prints "not reproduced" on a fixed tree.

IntegerSequence.get_nearest_prev_point walks from p_start (without checking
that p_start itself is excluded); if the candidate it ends with is excluded it
calls itself with that candidate, which (being excluded, hence "not on
sequence") walks from p_start again and ends with the same candidate:
RecursionError.  Happens for any query point between an excluded first point
and the next valid point (including the excluded point itself).
Expected: None (no valid point below).
"""
from cylc.flow.cycling.integer import IntegerSequence, IntegerPoint

bad = 0
for expr, a, b, p in [('P1!3', '3', '7', 3), ('P2!1', '1', '9', 2),
                      ('R/P1!(1,2)', '1', '5', 2)]:
    seq = IntegerSequence(expr, a, b)
    try:
        got = seq.get_nearest_prev_point(IntegerPoint(str(p)))
    except RecursionError as exc:
        got = repr(exc)
    ok = got is None
    bad += not ok
    print(f'IntegerSequence({expr!r}, {a!r}, {b!r}).get_nearest_prev_point('
          f'{p}): expected None, got {got}', 'OK' if ok else '<-- WRONG')
print('DEFECT REPRODUCED' if bad else 'not reproduced')
