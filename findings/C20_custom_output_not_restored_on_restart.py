"""C20 (restart load, also C19): a committed custom output whose message differs from its name is not restored on restart.

task_outputs stores {trigger: message}.  load_db_task_pool_for_restart()
does `for message in json.loads(outputs_str):
    itask.state.outputs.set_message_complete(message)` - it iterates the dict KEYS
(trigger names) and passes them as messages, so an output declared as
`x = "the x file is ready"` is NOT restored on a running task (standard outputs
and custom outputs with message == name are).  The output normally comes back
through the restart poll; when the job's `succeeded` is processed first and the
scheduler dies again before the late poll result is committed (as in
C20_output_message_lost_succeeded_overtakes_restart_poll.py) the committed
output is gone from task_outputs for good.  Compare _load_historical_outputs,
which handles the dict form with set_trigger_complete().

How to run:  PYTHONPATH=/verif:/repo /venv/bin/python findings/C20_custom_output_not_restored_on_restart.py

This reproduction drives the REAL cylc Scheduler with the stepped-scheduler
harness of the verification framework (vf.sim engine + vf/props/c20.py): a
plain script is impractical because the scheduler has to be killed at one
exact database statement / main-loop position.  Every scheduler incarnation
below runs in its own forked child process and "killed" means
os._exit(137) in that child (no shutdown code, no commit, open transaction
abandoned); jobs are scripted on a virtual cluster; the next incarnation is a
new Scheduler object in a new process on the same run directory.
Candidate minimal fix: in load_db_task_pool_for_restart iterate the dict form with set_trigger_complete(trigger) as _load_historical_outputs does.
"""
import json
import os
import sys

sys.path[:0] = [os.environ.get('VF_ROOT', '/verif'),
                os.environ.get('VF_REPO', '/repo')]
import vf.props.c20 as c20  # noqa: E402

# kills = [[class index into c20.KILL_CLASSES, n-th point of that class,
#           effect number of a second kill in the restarted scheduler (0 =
#           none), job progress while down (0 none / 1 one step / 2 to end)]]
CASE = json.loads(r'''{"spec": {"mode": "integer", "icp": 1, "fcp": 1, "retries": {}, "extra": {}, "custom": {"a": {"x": "the x file is ready"}}, "tasks": ["a"], "opt": {"a": {"succ": false, "submit": false, "fail_required": false, "custom": {"x": true}}}, "sections": [{"rec": {"kind": "R1", "at": 1, "form": 0}, "lines": [{"lhs": null, "rhs": ["a"]}]}]}, "outcomes": {}, "ret_delays": [], "kills": [[9, 3, 50, 0]]}''')

if __name__ == '__main__':
    res = c20.explain(CASE)
    want = 'C20:final-outputs-differ-from-uninterrupted-run:custom-output-not-restored-at-restart-load-and-task-completed-before-restart-poll-returned'
    ok = any(v.sig == want for v in res.violations)
    print()
    print('REPRODUCED' if ok else 'NOT REPRODUCED', want)
    sys.exit(0 if ok else 1)
