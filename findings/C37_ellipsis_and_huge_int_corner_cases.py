r"""C37 corner cases with the same root cause as
C37_non_finite_float_not_restorable.py: template variables are stored as
repr(value) and restored with ast.literal_eval, but repr is not an inverse of
literal_eval for every value literal_eval accepts.

Run:  PYTHONPATH=/repo /venv/bin/python findings/C37_ellipsis_and_huge_int_corner_cases.py

(a) `-s 'E=...'`          literal_eval('...') is Ellipsis (accepted); stored as
                          'Ellipsis'; literal_eval('Ellipsis') -> ValueError ->
                          InputError: restart aborts.
(b) `-s 'N=0x1000...0'`   a hex/binary/octal literal of more than 4300 decimal
    (3600 zeros)          digits is accepted by literal_eval, but repr(int)
                          raises "ValueError: Exceeds the limit (4300 digits)"
                          in put_workflow_template_vars: the FIRST start
                          crashes while storing the variable.
Both are far-fetched inputs; they are recorded because the property quantifies
over every literal the parser accepts.
"""
import os
import tempfile
from functools import partial
from types import SimpleNamespace

from cylc.flow.scheduler import Scheduler
from cylc.flow.templatevars import load_template_vars
from cylc.flow.workflow_db_mgr import WorkflowDatabaseManager


def start_and_restart(pairs):
    d = tempfile.mkdtemp()
    pri_d, pub_d = os.path.join(d, '.service'), os.path.join(d, 'log')
    os.makedirs(pri_d)
    os.makedirs(pub_d)
    tvars = load_template_vars(pairs)
    print('accepted at first start:', {k: type(v).__name__ for k, v in tvars.items()})
    mgr = WorkflowDatabaseManager(pri_d, pub_d)
    mgr.on_workflow_start(is_restart=False)
    try:
        mgr.put_workflow_template_vars(tvars)
        mgr.process_queued_ops()
    except Exception as exc:
        print(f'  first start fails while storing: {type(exc).__name__}: {exc}')
        return False
    finally:
        mgr.on_workflow_shutdown()
    mgr = WorkflowDatabaseManager(pri_d, pub_d)
    mgr.on_workflow_start(is_restart=True)
    sched = SimpleNamespace(template_vars={})
    try:
        with mgr.get_pri_dao() as dao:
            dao.select_workflow_template_vars(
                partial(Scheduler._load_template_vars, sched))
    except Exception as exc:
        print(f'  restart fails: {type(exc).__name__}: {str(exc).splitlines()[0]}')
        return False
    finally:
        mgr.on_workflow_shutdown()
    print('  restored:', sched.template_vars)
    return True


ok_a = start_and_restart(['E=...'])
ok_b = start_and_restart(['N=0x1' + '0' * 3600])
print('DEFECT REPRODUCED' if not (ok_a and ok_b) else 'not reproduced')
