"""C13: a prerequisite that mentions the same upstream output at integer
points -N and N is evaluated wrongly (silently) or not at all.

Run:  PYTHONPATH=/repo /venv/bin/python findings/C13_negative_point_same_magnitude.py

`a[-P2] | b => tgt` style offsets give negative (pre-initial, hence
satisfied) points in the first cycles: at point 1, `a[-P2]` is -1/a.
Prerequisite.set_conditional_expr (GH #6588 fix) builds the pattern
r"-\b1/a succeeded\b" for the negative point, but the pattern
r"\b1/a succeeded\b" of the *positive* point 1/a also matches inside
"-1/a succeeded" (there is a word boundary between "-" and "1").  When the
positive key is processed first (set order) the pre-initial atom becomes
`-bool(self._satisfied[("1", "a", "succeeded")])`: the pre-initial
dependency is no longer "satisfied", it now follows 1/a (negated integer).

Graph:  a[-P2] | (a & b) => tgt      evaluated at point 1 (initial point 1)
Expected: satisfied from the start (a[-P2] = -1/a is pre-initial).
"""
import os
import sys
import tempfile
from pathlib import Path

if os.environ.get('PYTHONHASHSEED') != '0':
    # processing order = iteration order of a set (string hashing): pin it
    os.environ['PYTHONHASHSEED'] = '0'
    os.execv(sys.executable, [sys.executable] + sys.argv)

from cylc.flow.config import WorkflowConfig
from cylc.flow.cycling.loader import get_point
from cylc.flow.id import Tokens
from cylc.flow.scripts.validate import ValidateOptions
from cylc.flow.task_proxy import TaskProxy

wrong = 0
for name in ['a', 'c', 'd', 'e', 'fo', 'foo']:
    d = Path(tempfile.mkdtemp())
    (d / 'flow.cylc').write_text(f'''
[scheduler]
    allow implicit tasks = True
[scheduling]
    cycling mode = integer
    initial cycle point = 1
    [[graph]]
        P1 = """
            {name} & b
            {name}[-P2] | ({name} & b) => tgt
        """
''')
    cfg = WorkflowConfig('w', str(d / 'flow.cylc'), ValidateOptions())
    itask = TaskProxy(
        Tokens('~u/w'), cfg.taskdefs['tgt'], get_point('1').standardise())
    (prereq,) = itask.state.prerequisites
    res = itask.state.prerequisites_all_satisfied()
    print(f'{name}[-P2] | ({name} & b) => tgt   at point 1')
    print('   states     :', {tuple(k): v for k, v in prereq.items()})
    print('   expression :', prereq.conditional_expression)
    print('   satisfied  :', res, '' if res else '   <-- WRONG (pre-initial '
          'dependency must count as satisfied)')
    if not res:
        wrong += 1
print()
print(f'WRONG: {wrong}/6 (order dependent)' if wrong else 'ok: not reproduced')
