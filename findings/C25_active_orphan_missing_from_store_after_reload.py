"""C25 finding: an active task that stays in the pool after a reload removed
its definition disappears from the data store at the next reload (or already
at the first one, see below): the pool holds a running task that no client
can see.

Mechanism:

  * TaskPool._reload_taskdefs keeps an active orphan and
    DataStoreMgr.generate_ghost_task recognises it by
    `name not in self.schd.config.taskdefs` (-> generate_orphan_task creates
    a PbTask definition for it).
  * `WorkflowConfig.get_taskdef(name)` silently *defines* an unknown name as
    an implicit task.  Once anything calls it for the orphan on the reloaded
    config the orphan test is false, no PbTask exists for the name, and
    generate_ghost_task returns at "Task removed from workflow definition"
    without creating the task proxy.
      - next reload: the orphan is not in this reload's `orphans` list
        (task_name_list was already updated), so _reload_taskdefs takes the
        normal branch `TaskProxy(..., self.config.get_taskdef(name), ...)`;
      - same reload: a waiting, runahead-limited instance of the removed
        task is dropped first: remove() -> spawn_next_parentless() ->
        can_be_spawned() -> get_taskdef(name).

C25 statement: "every task in the pool appears in the published data store".

History (real Scheduler on the virtual cluster of /verif/vf/sim; P1 = a, b;
one cycle): run until a is running; reload a definition without a (a is kept:
fine, and still in the store); reload again.

Run: cd /verif && PYTHONPATH=/verif:/repo /venv/bin/python \
         findings/C25_active_orphan_missing_from_store_after_reload.py

Candidate minimal fix: let generate_ghost_task test
`name not in self.schd.pool.task_name_list` (the names of the loaded graph)
or have the pool remember adopted orphans across reloads.
"""
from _c25_c27_common import (
    SCase, cleanup, ctx_for, fair_round, reload_with, run_async, spec_of)


async def main():
    case = {'spec': spec_of(['a', 'b']), 'outcomes': {}, 'schedule': []}
    async with SCase(case, ctx_for('C25')) as sc:
        assert not sc.rejected, sc.rejected
        drv, sim = sc.drv, sc.sim
        schd = sim.schd
        for _ in range(3):
            await fair_round(drv)

        def show(when):
            dsm = schd.data_store_mgr
            store = sorted(
                k.split('//')[1]
                for k in dsm.data[dsm.workflow_id]['task_proxies'])
            pool = {t.identity: t.state.status
                    for t in schd.pool.get_tasks()}
            print(f'{when}: pool {pool} | store task proxies {store}')
            return pool, store

        show('before')
        await reload_with(sim, spec_of(['b']))
        await drv.loop()
        show('after reload 1 (a removed)')
        await reload_with(sim, spec_of(['b']))
        await drv.loop()
        pool, store = show('after reload 2 (same definition)')
        missing = [t for t in pool if t not in store]
        if missing:
            print('DEFECT: pooled task(s)', missing,
                  'have no task proxy in the data store')
        else:
            print('ok')


if __name__ == '__main__':
    try:
        run_async(main())
    finally:
        cleanup()
