"""C11 / C12: custom outputs whose names differ only by "-" / "_" share one
completion variable, so one of them becomes invisible to the completion
expression.

Run:  PYTHONPATH=/repo /venv/bin/python findings/C11_C12_compvar_collision.py

trigger_to_completion_variable() maps both `a-b` and `a_b` to the variable
`a_b`.  WorkflowConfig accepts a task that defines both.  Every dict keyed
by the variable (TaskOutputs._message_to_compvar -> is_complete(),
get_trigger_completion_variable_maps / graph_optionals in
_check_completion_expression) keeps only the LAST defined output:

(1) C11: both outputs required in the graph; the default expression is
    "(a_b and succeeded)"; with the first-defined output `a-b` missing,
    is_complete() is True although a required output was not produced.
(2) C12: `a-b` required in the graph, user expression "succeeded" does not
    reference it; validation accepts (for any other output name it says
    "required in the graph, but not referenced in the completion").
"""
import tempfile
from pathlib import Path

from cylc.flow.config import WorkflowConfig
from cylc.flow.exceptions import WorkflowConfigError
from cylc.flow.scripts.validate import ValidateOptions
from cylc.flow.task_outputs import TaskOutputs


def load(graph, runtime):
    d = Path(tempfile.mkdtemp())
    (d / 'flow.cylc').write_text(f'''
[scheduler]
    allow implicit tasks = True
[scheduling]
    [[graph]]
        R1 = """
{graph}
        """
[runtime]
    [[t]]
{runtime}
''')
    return WorkflowConfig('w', str(d / 'flow.cylc'), ValidateOptions())


wrong = 0

# (1) default expression
cfg = load('t:a-b => p\nt:a_b => q',
           '        [[[outputs]]]\n            a-b = m1\n            a_b = m2')
tdef = cfg.taskdefs['t']
print('(1) outputs:', {k: v for k, v in tdef.outputs.items() if v[1]})
print('    default completion:', tdef.rtconfig['completion'])
outs = TaskOutputs(tdef)
for msg in ('submitted', 'started', 'succeeded', 'm2'):   # m1 (a-b) missing
    outs.set_message_complete(msg)
res = outs.is_complete()
print('    required output a-b NOT completed -> is_complete() =', res)
if res:
    wrong += 1

# (2) validation
for name in ('a-b', 'x'):
    try:
        load(f't:{name} => p\nt:a_b? => q',
             '        completion = succeeded\n        [[[outputs]]]\n'
             f'            {name} = m1\n            a_b = m2')
        print(f'(2) {name} required in graph, completion = succeeded: '
              'ACCEPTED')
        if name == 'a-b':
            wrong += 1
    except WorkflowConfigError as exc:
        print(f'(2) {name} required in graph, completion = succeeded: '
              f'rejected: {str(exc).splitlines()[0]}')

print()
print(f'WRONG: {wrong} of 2 symptoms reproduced' if wrong
      else 'ok: not reproduced')
