"""C06 (scheduler crash seen by the holds check): with a held task in the
pool, re-triggering a finished upstream-cycle task and then releasing all
holds kills the scheduler in the data store:

    AttributeError: 'NoneType' object has no attribute 'graph_depth'
      data_store_mgr.py  _family_ascent_point_update
      <- update_family_proxies <- update_data_structure <- Scheduler._main_loop

Workflow (integer cycling 1..3):

    P1     = "foo => bar"
    +P2/P1 = "foo[-P1] => bar"      # 3/bar also needs 2/foo
    P2     = "bar[-P2] => bar"      # 3/bar also needs 1/bar

History (all commands are valid and accepted):
    1. cylc hold //2/foo            (2/foo is then held in the pool)
    2. run until nothing more can happen: 1/foo, 3/foo, 1/bar have run,
       2/foo is held, 3/bar waits for it
    3. cylc trigger //1/bar         (re-run a finished task)
    4. cylc release --all           (release_hold_point)
    5. run on: 1/bar, 2/foo, 2/bar, 3/bar succeed; when the last tasks leave
       the pool update_family_proxies() walks the children of family `root`
       at some cycle and finds a task-proxy id that is in all_n_window_nodes
       but neither in the added nor in the stored TASK_PROXIES -> tp_node is
       None -> AttributeError; the scheduler aborts (handle_exception) instead
       of shutting down normally.

Without step 3 (hold, run, release, run on) the workflow completes normally;
the crash needs the re-trigger of 1/bar while the held 2/foo keeps cycle 2
alive.  Candidate minimal fix: in _family_ascent_point_update skip
child task ids whose node is missing (`if tp_node is None and tp_delta is
None: continue`), as is already done for ids outside all_n_window_nodes; the
root cause is a window/prune bookkeeping mismatch (id kept in a family's
child_tasks after the task proxy element was pruned).

Drives the real scheduler through the /verif engine-S harness (vf.sim).  Run:
    cd /verif && PYTHONPATH=/verif:/repo /venv/bin/python \
        findings/C06_datastore_crash_hold_retrigger_release.py
"""
import os
import shutil
import sys
import tempfile

scr = tempfile.mkdtemp(prefix='vf-finding-')
os.environ['HOME'] = scr + '/home'
os.makedirs(os.environ['HOME'])
os.environ['CYLC_CONF_PATH'] = scr + '/conf'
os.chdir(scr)
sys.path[:0] = [os.path.dirname(os.path.dirname(os.path.abspath(__file__))),
                os.environ.get('VF_REPO', '/repo')]

from vf import core  # noqa: E402
from vf.sim.drive import SCase, run_async  # noqa: E402

OPT = {'succ': False, 'submit': False, 'fail_required': False, 'custom': {}}


def atom(t, off=None):
    return {'t': t, 'off': off, 'abs': None, 'out': 'succeeded',
            'implicit': True, 'longform': False}


SPEC = {
    'mode': 'integer', 'icp': 1, 'fcp': 3, 'tasks': ['foo', 'bar'],
    'custom': {}, 'opt': {'foo': dict(OPT), 'bar': dict(OPT)},
    'retries': {}, 'extra': {},
    'sections': [
        {'rec': {'kind': 'P', 'step': 1, 'off': 0, 'excl': []},
         'lines': [{'lhs': atom('foo'), 'rhs': ['bar']}]},
        {'rec': {'kind': 'P', 'step': 1, 'off': 2, 'excl': []},
         'lines': [{'lhs': atom('foo', -1), 'rhs': ['bar']}]},
        {'rec': {'kind': 'P', 'step': 2, 'off': 0, 'excl': []},
         'lines': [{'lhs': atom('bar', -2), 'rhs': ['bar']}]},
    ],
}
CASE = {'spec': SPEC, 'outcomes': {}, 'schedule': []}


async def main(with_trigger):
    from cylc.flow import commands
    ctx = core.Ctx('C06', 'quick', 1, 0, 1, scr, core.Collector('C06'))
    async with SCase(CASE, ctx) as sc:
        assert not sc.rejected, sc.rejected
        sim = sc.sim

        async def cmd(gen):
            """run a command as Scheduler.process_command_queue does"""
            await commands.run_cmd(gen)
            sim.schd.is_updated = True
        await cmd(commands.hold(sim.schd, ['2/foo']))
        await sc.drain()
        if with_trigger:
            await cmd(
                commands.force_trigger_tasks(sim.schd, ['1/bar'], []))
        await cmd(commands.release_hold_point(sim.schd))
        await sc.drain()
        return sim.crashed, sim.shutdown_reason, [
            f'{c}/{n}/{sn:02d}' for c, n, sn in sim.journal]


try:
    crashed0, reason0, jobs0 = run_async(main(False))
    print('hold, release          : crash =', repr(crashed0), '| shutdown',
          reason0, '| jobs', jobs0)
    crashed, reason, jobs = run_async(main(True))
    print('hold, trigger, release : crash =', repr(crashed), '| jobs', jobs)
finally:
    shutil.rmtree(scr, ignore_errors=True)
assert crashed0 is None and isinstance(crashed, AttributeError), \
    'defect not present'
print('DEFECT: the scheduler died with', repr(crashed))
