"""C15: a family with an :expire-all / :expire-any qualifier at the end of a
chain (or as a lone node) is rejected by WorkflowConfig.

GraphParser accepts "a => FAM:expire-all?" and gives every member
expired-optional, like every other family qualifier on the right.  But
WorkflowConfig.check_terminal_outputs() only skips qualifiers listed in
task_qualifiers.TASK_QUALIFIERS, and that tuple lists twelve family
qualifiers: QUAL_FAM_EXPIRE_ALL and QUAL_FAM_EXPIRE_ANY are missing.  The
family qualifier is then taken for a custom output of a task called FAM:

    WorkflowConfigError: Undefined custom output: FAM:expire-all

Candidate fix: add QUAL_FAM_EXPIRE_ALL / QUAL_FAM_EXPIRE_ANY to TASK_QUALIFIERS.

Run: PYTHONPATH=/repo /venv/bin/python findings/C15_family_expire_qualifier_terminal_rejected_by_config.py
"""
import tempfile
from pathlib import Path

from cylc.flow.config import WorkflowConfig
from cylc.flow.exceptions import WorkflowConfigError
from cylc.flow.graph_parser import GraphParser
from cylc.flow.scripts.validate import ValidateOptions

FLOW = """
[scheduler]
    allow implicit tasks = True
[scheduling]
    [[graph]]
        R1 = a => FAM:{q}?
[runtime]
    [[FAM]]
    [[m1, m2]]
        inherit = FAM
"""
bad = 0
for q in ('submit-fail-all', 'expire-all', 'expire-any'):
    gp = GraphParser({'FAM': ['m1', 'm2']})
    gp.parse_graph(f'a => FAM:{q}?')
    print(f'GraphParser: a => FAM:{q}?  ->  optional outputs '
          f'{sorted(k for k, v in gp.task_output_opt.items() if v[0])}')
    d = Path(tempfile.mkdtemp())
    (d / 'flow.cylc').write_text(FLOW.format(q=q))
    try:
        WorkflowConfig('w', str(d / 'flow.cylc'), ValidateOptions())
        print(f'WorkflowConfig: a => FAM:{q}?  accepted')
    except WorkflowConfigError as exc:
        bad += 1
        print(f'WorkflowConfig: a => FAM:{q}?  REJECTED: {exc}')
print('DEFECT REPRODUCED' if bad else 'not reproduced')
