"""C06 finding: a hold does not outlive the removal of the held task proxy,
so a held instance is submitted although nobody released or triggered it.

Workflow:  R1 = "a => b".  History (real Scheduler on the virtual cluster):

    1. `cylc hold //1/b` while 1/b is not in the pool yet
       -> tasks_to_hold = {1/b}
    2. 1/a runs and succeeds; 1/b is spawned *held* ("holding (as requested
       earlier)") and waits: correct so far
    3. `cylc trigger //1/a` (re-run the finished parent).  The trigger
       removes 1/a from the flow history; _remove_matched_tasks un-sets the
       prerequisite of the pooled child 1/b and, as 1/b now has no satisfied
       prerequisite left, removes it from the pool ("prerequisite task(s)
       removed").  TaskPool.remove() starts with

           # the held state is no longer relevant -> remove it
           self.release_held_active_task(itask)

       which discards 1/b from tasks_to_hold (and from the tasks_to_hold
       table): the hold the user placed on the *instance* is gone.
    4. the re-run 1/a succeeds, 1/b is spawned again - not held - and is
       submitted.

1/b was held explicitly, was never released and never manually triggered,
yet it entered job preparation: C06 ("A task instance that is held ... never
enters job preparation until it is released or manually triggered"; a hold on
an instance that is not in the pool "takes effect when it spawns").  The same
root cause drops the hold of a held submitted/running task when it completes
and is removed.  A hold on an instance that has never been in the pool is
kept in tasks_to_hold indefinitely, so the two cases are treated differently
only because of pool membership at the moment of the hold.

Candidate minimal fix: in TaskPool.remove() only reset the proxy's held flag,
do not discard the instance from tasks_to_hold unless the task has completed
/ the removal was requested for that very instance (e.g. call
release_held_active_task only from the completion path and from
`cylc remove`), so that REMOVED_BY_PREREQ keeps the hold for the respawn.

This script drives the real scheduler through the /verif engine-S harness
(vf.sim), because a plain script would need a running scheduler with a job
runner.  Run:
    cd /verif && PYTHONPATH=/verif:/repo /venv/bin/python \
        findings/C06_hold_dropped_when_proxy_removed.py
"""
import os
import shutil
import sys
import tempfile

scr = tempfile.mkdtemp(prefix='vf-finding-')
os.environ['HOME'] = scr + '/home'
os.makedirs(os.environ['HOME'])
os.environ['CYLC_CONF_PATH'] = scr + '/conf'
os.chdir(scr)
sys.path[:0] = [os.path.dirname(os.path.dirname(os.path.abspath(__file__))),
                os.environ.get('VF_REPO', '/repo')]

from vf import core  # noqa: E402
from vf.sim.drive import SCase, run_async  # noqa: E402

OPT = {'succ': False, 'submit': False, 'fail_required': False, 'custom': {}}
SPEC = {
    'mode': 'integer', 'icp': 1, 'fcp': 1, 'tasks': ['a', 'b'], 'custom': {},
    'opt': {'a': dict(OPT), 'b': dict(OPT)}, 'retries': {}, 'extra': {},
    'sections': [{'rec': {'kind': 'R1', 'at': 1, 'form': 0}, 'lines': [
        {'lhs': {'t': 'a', 'off': None, 'abs': None, 'out': 'succeeded',
                 'implicit': True, 'longform': False}, 'rhs': ['b']}]}],
}
CASE = {'spec': SPEC, 'outcomes': {}, 'schedule': []}


async def main():
    from cylc.flow import commands
    ctx = core.Ctx('C06', 'quick', 1, 0, 1, scr, core.Collector('C06'))
    async with SCase(CASE, ctx) as sc:
        assert not sc.rejected, sc.rejected
        drv, sim = sc.drv, sc.sim

        async def cmd(gen):
            """run a command as Scheduler.process_command_queue does"""
            await commands.run_cmd(gen)
            sim.schd.is_updated = True

        schd = sim.schd

        def held():
            return sorted(f'{p}/{n}' for n, p in schd.pool.tasks_to_hold)

        def pool():
            return [(t['cycle'] + '/' + t['name'], t['status'],
                     'held' if t['held'] else 'not held')
                    for t in sim.pool_snapshot()]

        async def fair(n):
            for _ in range(n):
                for it in sim.pending_cmds():
                    sim.mark_returned(it)
                for job in sorted(sim.live_jobs(), key=lambda j: j.key):
                    sim.advance(job)
                for m in list(sim.inflight):
                    sim.deliver(m)
                await drv.loop()

        await cmd(commands.hold(schd, ['1/b']))
        print('1. hold 1/b (not in the pool)   tasks_to_hold =', held())
        await fair(8)
        print('2. 1/a has run                  pool =', pool(),
              ' tasks_to_hold =', held())
        assert pool() == [('1/b', 'waiting', 'held')], pool()
        await cmd(commands.force_trigger_tasks(schd, ['1/a'], []))
        print('3. trigger 1/a (re-run parent)  pool =', pool(),
              ' tasks_to_hold =', held())
        for ev in sim.trace:
            if ev['k'] == 'remove' and ev['name'] == 'b':
                print('      1/b removed from the pool:', ev['reason'])
        dropped = held() == []
        await fair(12)
        print('4. after the re-run             jobs submitted =',
              [f'{c}/{n}/{sn:02d}' for c, n, sn in sim.journal])
        return dropped, ('1', 'b', 1) in sim.journal


try:
    dropped, b_ran = run_async(main())
finally:
    shutil.rmtree(scr, ignore_errors=True)
assert dropped and b_ran, 'defect not present'
print('DEFECT: 1/b was held by `cylc hold`, never released and never '
      'triggered, but its hold was dropped when the proxy was removed from '
      'the pool and the job 1/b/01 was submitted')
