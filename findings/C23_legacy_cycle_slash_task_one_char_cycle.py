r"""C23: legacy `cycle/task` ids with a ONE character cycle are not upgraded.

Run:  PYTHONPATH=/repo /venv/bin/python findings/C23_legacy_cycle_slash_task_one_char_cycle.py

The legacy (Cylc 7) `task.cycle` form accepts a one character cycle
(LEGACY_TASK_DOT_CYCLE: `\d[^~\.\:\/\n]*`; tests/unit/test_id.py: "integer
cycles can be one character long"), but the sibling `cycle/task` form
(LEGACY_CYCLE_SLASH_TASK: `\d[^~\.\:\/\n]+`) needs at least two characters.
So `cylc <cmd> workflow 1/foo` is not upgraded to `workflow//1/foo`: the
second argument is silently taken as another *workflow* called "1/foo".
"""
from cylc.flow.id import upgrade_legacy_ids, legacy_tokenise
from cylc.flow.id_cli import _parse_cli

bad = 0
for ids in (('w', 'foo.1'), ('w', '12/foo'), ('w', '1/foo')):
    up = upgrade_legacy_ids(*ids)
    cli = [t.id for t in _parse_cli(*ids)]
    print(f'{ids!r:20} upgrade_legacy_ids -> {up!r:22} _parse_cli -> {cli!r}')

print()
try:
    print('legacy_tokenise("1/foo") =', legacy_tokenise('1/foo'))
except ValueError as exc:
    print('legacy_tokenise("1/foo") raises ValueError:', exc)
    bad += 1
if upgrade_legacy_ids('w', '1/foo') != ['w', '//1/foo']:
    print('WRONG: upgrade_legacy_ids("w", "1/foo") =',
          upgrade_legacy_ids('w', '1/foo'), '(expected ["w", "//1/foo"])')
    bad += 1
got = [t.id for t in _parse_cli('w', '1/foo')]
if got != ['w//1/foo']:
    print('WRONG: _parse_cli("w", "1/foo") ->', got,
          '(expected ["w//1/foo"], as for "foo.1" and "12/foo")')
    bad += 1
print('DEFECT REPRODUCED' if bad else 'not reproduced')
