"""C01 finding: an instance whose parents are one absolute trigger plus a
pre-initial (ignored) inter-cycle trigger is never spawned, unless it is the
first instance of its task.

    initial cycle point = 1, final cycle point = 2
    P1 = a
    P1 = ab[-P2] | a[^] => ab

ab.1 is spawned by a.1:succeeded (first graph child of the absolute
trigger) and runs.  ab.2 depends on "ab.0 (pre-initial, ignored) | a.1",
which is true once a.1 has succeeded, but:
  * it is not spawned by a.1:succeeded - for an absolute trigger only the
    first child is spawned, later ones are expected to be auto-spawned as
    parentless tasks and only updated if already in the pool;
  * it is not auto-spawned - TaskDef.is_parentless() accepts "all parents
    before the start point" or "only absolute triggers", not the
    combination of the two.
So ab.2 never runs and the scheduler shuts down as if complete.

Shown at function level (the registered check C01 shows it end to end:
signature C01:missing-run:absolute-plus-preinitial-parents-not-first-child).

Run: PYTHONPATH=/repo /venv/bin/python findings/C01_absolute_plus_preinitial_parent_never_spawned.py
"""
import os, tempfile
d = tempfile.mkdtemp()
os.environ['HOME'] = d
open(f'{d}/flow.cylc', 'w').write('''
[scheduler]
    allow implicit tasks = True
[scheduling]
    cycling mode = integer
    initial cycle point = 1
    final cycle point = 2
    [[graph]]
        P1 = a
        P1 = ab[-P2] | a[^] => ab
''')
from cylc.flow.config import WorkflowConfig
from cylc.flow.scripts.validate import ValidateOptions
from cylc.flow.cycling.loader import get_point
cfg = WorkflowConfig('w', f'{d}/flow.cylc', ValidateOptions())
ab, a = cfg.taskdefs['ab'], cfg.taskdefs['a']
icp = get_point('1')
for p in '12':
    pt = get_point(p)
    print(f'ab.{p}: parent points {sorted(str(x) for x in ab.get_parent_points(pt))}'
          f' only-abs={ab.has_only_abs_triggers(pt)}'
          f' parentless={ab.is_parentless(pt, icp)}')
from cylc.flow.taskdef import generate_graph_children
kids = generate_graph_children(a, icp)
print('graph children of a.1:', {k: [(n, str(p), abs_) for n, p, abs_ in v]
                                 for k, v in kids.items()})
spawned_by_output = any(n == 'ab' and str(p) == '2'
                        for v in kids.values() for n, p, _ in v)
assert not ab.is_parentless(get_point('2'), icp) and not spawned_by_output, \
    'defect not present'
print('DEFECT: ab.2 is neither a graph child of a.1 nor parentless: '
      'nothing ever spawns it')
