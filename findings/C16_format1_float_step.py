"""C16: integer recurrence format 1 (Rn/START/END) is rejected for every n > 1.

cylc/flow/cycling/integer.py documents "Rn/START/END  e.g. R3/0/10: run n
times between START and END".  The step is computed with true division
(`int(stop - start) / (reps - 1)`, a float since Python 3), so
IntegerInterval.from_integer builds 'P5.0', which IntegerInterval rejects.
Expected: R3/0/10 == {0, 5, 10}.
"""
from cylc.flow.cycling.integer import IntegerSequence, IntegerPoint

bad = 0
for expr, want in [('R3/0/10', [0, 5, 10]), ('R2/1/4', [1, 4]),
                   ('R4/0/9', [0, 3, 6, 9])]:
    try:
        seq = IntegerSequence(expr, '0', '20')
        got = [i for i in range(-2, 25) if seq.is_valid(IntegerPoint(str(i)))]
    except Exception as exc:
        got = repr(exc)
    ok = got == want
    bad += not ok
    print(f'{expr!r} in [0, 20]: expected {want}, got {got}',
          'OK' if ok else '<-- WRONG')
print('DEFECT REPRODUCED' if bad else 'not reproduced')
