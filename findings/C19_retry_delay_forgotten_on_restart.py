"""C19 finding (reading-dependent): the pending retry delay of a task is
forgotten by a restart - the task is resubmitted at once.

A failed job with `execution retry delays = PT1H` puts its task back to
waiting with an unsatisfied internal xtrigger `_cylc_retry_<cycle>_<task>`
(TaskEventsManager._retry_task: a wall_clock xtrigger with trigger_time =
now + 1 h); that xtrigger is what keeps the task from running.  On restart

  * TaskPool.load_db_task_pool_for_restart re-creates the proxy with only the
    xtriggers declared in the graph;
  * load_db_task_action_timers reloads `itask.try_timers[...]` (with the
    recorded timeout) but calls _retry_task() only for pre-8.0 "retrying"
    states;
  * TaskProxy.is_ready_to_run() tests `self.state.status in
    self.try_timers`, but the keys of try_timers are TimerFlags
    ("execution-retry" / "submission-retry"), never a status, so the
    reloaded timer is not consulted.

So before the stop the task has xtriggers {_cylc_retry_1_b: False}, after
the restart {} and it is submitted again within a few main-loop iterations,
59+ minutes early.

C19 lists "xtrigger satisfaction" among what a restart restores.  Whether
the internal retry xtrigger is meant is a matter of reading (hence its own
signature, C19:retry-delay-xtrigger-not-restored); the behaviour - a retry
delay cut short by a restart - is observable either way.

Candidate fix: in load_db_task_action_timers, for a reloaded try timer with
a timeout in the future call task_events_mgr._retry_task(itask, timeout,
submit_retry=...) (as the "retrying" upgrade branch does).

Uses the verification harness (vf.sim: real Scheduler objects, single-stepped
main loop, virtual job cluster, virtual clock) because a stop/restart needs a
scheduler.
Run: cd /verif && PYTHONPATH=/verif:/repo /venv/bin/python \
         findings/C19_retry_delay_forgotten_on_restart.py
"""
import os
import shutil
import sqlite3
import sys
import tempfile

scr = tempfile.mkdtemp(prefix='vf-finding-')
os.environ['HOME'] = scr + '/home'
os.makedirs(os.environ['HOME'])
os.environ['CYLC_CONF_PATH'] = scr + '/conf'
os.chdir(scr)
sys.path[:0] = [os.path.dirname(os.path.dirname(os.path.abspath(__file__))),
                os.environ.get('VF_REPO', '/repo')]

from vf import core  # noqa: E402
from vf.sim.drive import SCase, run_async  # noqa: E402


def spec_for(tasks, fcp, custom=None, retries=None):
    """Minimal harness AST (only used for job scripts / point maps); the
    workflow itself is the FLOW text below."""
    return {
        'mode': 'integer', 'icp': 1, 'fcp': fcp, 'tasks': tasks,
        'custom': custom or {}, 'retries': retries or {}, 'extra': {},
        'opt': {t: {'succ': False, 'submit': False, 'fail_required': False,
                    'custom': {}} for t in tasks},
        'sections': [{'rec': {'kind': 'P', 'step': 1, 'off': 0, 'excl': []},
                      'lines': [{'lhs': None, 'rhs': [t]} for t in tasks]}],
    }


def pool(sim):
    return {f"{t['cycle']}/{t['name']}": t for t in sim.pool_snapshot()}


def show(sim, title):
    print(title)
    for ident, t in sorted(pool(sim).items()):
        print(f"    {ident}: status={t['status']} held={bool(t['held'])} "
              f"flows={t['flows']} submit_num={t['submit_num']} "
              f"outputs={t['outputs']}")
    if not pool(sim):
        print('    (empty)')


async def fair_round(sc, only=None):
    """Everything pending returns, every job (of task `only`) takes one
    step, every message is delivered, one main-loop iteration."""
    sim = sc.sim
    for it in sim.pending_cmds():
        sim.mark_returned(it)
    for job in sorted(sim.live_jobs(), key=lambda j: j.key):
        if only is None or job.name == only:
            sim.advance(job)
    for m in list(sim.inflight):
        sim.deliver(m)
    await sc.drv.loop()


def table(sim, name):
    con = sqlite3.connect(sim.schd.workflow_db_mgr.pri_path)
    try:
        return con.execute(f'SELECT * FROM {name}').fetchall()
    finally:
        con.close()


def make_ctx():
    return core.Ctx('C19', 'quick', 1, 0, 1, scr, core.Collector('C19'))

FLOW = """
[scheduler]
    allow implicit tasks = True
[scheduling]
    cycling mode = integer
    initial cycle point = 1
    final cycle point = 1
    [[graph]]
        P1 = "b"
[runtime]
    [[root]]
        script = true
    [[b]]
        execution retry delays = PT1H
"""
SPEC = spec_for(['b'], 1, retries={'b': {'exec': 1, 'submit': 0}})
CASE = {'spec': SPEC, 'schedule': [],
        'outcomes': {'1/b': [{'final': 'failed'}, {'final': None}]}}


async def main():
    async with SCase(CASE, make_ctx(), flow_text=FLOW) as sc:
        sim = sc.sim
        for _ in range(6):
            await fair_round(sc)
        t = pool(sim)['1/b']
        print(f"before stop : 1/b {t['status']} submit_num={t['submit_num']}"
              f" xtriggers={t['xtriggers']}; jobs submitted so far: "
              f"{sim.journal}")
        before = dict(t['xtriggers'])
        # without a restart nothing happens for an hour: 20 more iterations
        for _ in range(20):
            await sc.drv.loop()
        assert len(sim.journal) == 1, sim.journal
        await sc.drv.stop_and_wait('now')
        await sc.drv.restart()
        t = pool(sim)['1/b']
        after = dict(t['xtriggers'])
        print(f"after restart: 1/b {t['status']} submit_num="
              f"{t['submit_num']} xtriggers={t['xtriggers']}")
        for _ in range(5):
            await sc.drv.loop()
        print(f'5 iterations (microseconds of virtual time) later, jobs '
              f'submitted: {sim.journal}')
        return before, after, list(sim.journal)


before, after, journal = run_async(main())
shutil.rmtree(scr, ignore_errors=True)
if before != after or len(journal) > 1:
    print(f'RETRY DELAY NOT RESTORED: xtriggers {before} -> {after}; '
          f'second job submitted right after the restart: {journal[1:]}')
    sys.exit(1)
