"""C29 finding: `cylc set --out=submit-failed <task>` is a silent no-op.

    R1 = "a:submit-fail? => e \n a? => b"

`cylc set --out=submit-failed 1/a` (or `--out=submit-fail`): expected (help:
"Complete task outputs ... OUTPUT format: trigger names as used in the
graph"; statement C29: marks those outputs complete and spawns their
children): output submit-failed complete, 1/e spawned with 1/a:submit-failed
satisfied.  Actual: nothing changes - the output is not completed, 1/e is
not spawned, nothing is logged above debug level ("unhandled").
`--out=failed` on the same task works (failed + implied outputs, child
spawned).

Cause: TaskPool._standardise_outputs maps the trigger to the output's
message, which for this output is "submit-failed"; 
TaskEventsManager.process_message(..., forced=True) (a) excludes
TASK_OUTPUT_SUBMIT_FAILED ("submit-failed") from the generic
set_message_complete() and (b) only has a branch for the job message
EVENT_SUBMIT_FAILED = "submission failed", so the forced message falls
through to the "unhandled" branch.  Candidate fix: in process_message treat
`task_output == TASK_OUTPUT_SUBMIT_FAILED` like the event message when
forced (complete the output, spawn children).

Drives the real Scheduler through the /verif stepped engine (start-up only;
no job runs).  Run:
    cd /verif && PYTHONPATH=/verif:/repo /venv/bin/python \
        findings/C29_set_submit_failed_noop.py
"""
import os
import shutil
import sys
import tempfile

scr = tempfile.mkdtemp(prefix='vf-finding-')
os.environ['HOME'] = scr + '/home'
os.makedirs(os.environ['HOME'])
os.environ['CYLC_CONF_PATH'] = scr + '/conf'
os.chdir(scr)
sys.path[:0] = [os.path.dirname(os.path.dirname(os.path.abspath(__file__))),
                os.environ.get('VF_REPO', '/repo')]

from vf import core  # noqa: E402
from vf.sim.drive import SCase, run_async  # noqa: E402

FLOW = '''
[scheduler]
    allow implicit tasks = True
[scheduling]
    cycling mode = integer
    initial cycle point = 1
    final cycle point = 1
    [[graph]]
        R1 = """
            a:submit-fail? => e
            a:fail? => d
            a? => b
        """
[runtime]
    [[root]]
        script = true
'''
SPEC = {'mode': 'integer', 'icp': 1, 'fcp': 1,
        'tasks': ['a', 'b', 'd', 'e'], 'custom': {}, 'opt': {},
        'retries': {}, 'extra': {}, 'sections': []}


async def run(output):
    from cylc.flow import commands
    ctx = core.Ctx('C29', 'quick', 1, 0, 1, scr, core.Collector('C29'))
    case = {'spec': SPEC, 'outcomes': {}, 'schedule': []}
    async with SCase(case, ctx, flow_text=FLOW) as sc:
        assert not sc.rejected, sc.rejected
        schd = sc.sim.schd
        await commands.run_cmd(commands.set_prereqs_and_outputs(
            schd, ['1/a'], [], outputs=[output], prerequisites=None))
        a = schd.pool._get_task_by_id('1/a')
        outs = (sorted(a.state.outputs.get_completed_outputs())
                if a is not None else None)
        pool = sorted(t.identity for t in schd.pool.get_tasks())
        print(f'cylc set --out={output} 1/a: 1/a',
              a.state.status if a is not None else 'gone', 'outputs', outs,
              '; pool', pool)
        return outs, pool


async def main():
    await run('failed')
    outs, pool = await run('submit-failed')
    bad = outs == [] and '1/e' not in pool
    print('DEFECT REPRODUCED: --out=submit-failed changed nothing'
          if bad else 'not reproduced')
    return bad


try:
    ok = run_async(main())
finally:
    shutil.rmtree(scr, ignore_errors=True)
sys.exit(0 if ok else 1)
