"""C28 finding: a held task that is triggered and then released before the
next main-loop iteration is submitted TWICE for one trigger.

Graph `a` (one task, one cycle).  Workflow paused.  1/a is held.

  cylc trigger //1/a     -> 1/a is a group-start member: TaskPool.
                            queue_or_trigger() takes it out of the queue,
                            sets waiting_on_job_prep and puts it in
                            pool.tasks_to_trigger_now (holds and the pause do
                            not block it - correct).  It is still held.
  cylc release //1/a     -> TaskPool.release_held_active_task(): the task is
                            "waiting" with all prerequisites satisfied, so
                            is_ready_to_run() is True and it is pushed on its
                            queue AGAIN (is_queued=True) although it is
                            already on its way to job submission.
  main loop              -> release_tasks_to_run() submits it from
                            tasks_to_trigger_now (job 01); the workflow is
                            paused so release_queued_tasks() is not called and
                            the second reference stays in the queue.
  cylc play (resume)     -> release_queued_tasks() pops 1/a (now submitted
                            or running) and it is prepared and submitted again
                            (job 02): "no member runs more than once per
                            trigger" is violated.  (With a limited queue
                            instead of a pause the same happens once job 01
                            has finished and freed the queue slot.)

Both commands only have to be processed before the next
release_tasks_to_run(): process_command_queue() drains all queued commands
in one go, and it is called at the end of one main-loop iteration and again
at the start of the next.

Cause: cylc/flow/task_pool.py release_held_active_task() queues the task
without checking that it has already been released to run
(itask.waiting_on_job_prep); TaskPool.queue_if_ready() has the analogous
guard (`not itask.is_manual_submit`).  Fix:
/tmp/tri/C28-release-requeues-triggered-task.patch (adds
`and not itask.waiting_on_job_prep`, plus a regression test in
tests/integration/test_force_trigger.py).

Drives the real Scheduler through the /verif stepped engine (vf.sim).  Run:
    cd /verif && PYTHONPATH=/verif:/repo /venv/bin/python \
        findings/C28_release_requeues_triggered_held_task.py
(VF_REPO=<patched tree> to see it pass.)
"""
import os
import shutil
import sys
import tempfile

scr = tempfile.mkdtemp(prefix='vf-finding-')
os.environ['HOME'] = scr + '/home'
os.makedirs(os.environ['HOME'])
os.environ['CYLC_CONF_PATH'] = scr + '/conf'
os.chdir(scr)
sys.path[:0] = [os.path.dirname(os.path.dirname(os.path.abspath(__file__))),
                os.environ.get('VF_REPO', '/repo')]

from vf import core  # noqa: E402
from vf.sim.drive import SCase, run_async  # noqa: E402

SPEC = {
    'mode': 'integer', 'icp': 1, 'fcp': 1, 'tasks': ['a'], 'custom': {},
    'opt': {'a': {'succ': False, 'submit': False, 'fail_required': False,
                  'custom': {}}},
    'retries': {}, 'extra': {},
    'sections': [{'rec': {'kind': 'R1', 'at': 1, 'form': 0},
                  'lines': [{'lhs': None, 'rhs': ['a']}]}],
}
CASE = {'spec': SPEC, 'outcomes': {}, 'schedule': []}


async def main():
    from cylc.flow import commands
    ctx = core.Ctx('C28', 'quick', 1, 0, 1, scr, core.Collector('C28'))
    async with SCase(CASE, ctx) as sc:
        assert not sc.rejected, sc.rejected
        drv, sim = sc.drv, sc.sim
        schd = sim.schd
        print(drv.flow_text)
        await commands.run_cmd(commands.pause(schd))
        await commands.run_cmd(commands.hold(schd, ['1/a']))
        a = schd.pool._get_task_by_id('1/a')
        print('before trigger :', a)
        await commands.run_cmd(commands.force_trigger_tasks(
            schd, ['1/a'], []))
        print('after trigger  :', a, ' waiting_on_job_prep =',
              a.waiting_on_job_prep)
        await commands.run_cmd(commands.release(schd, ['1/a']))
        print('after release  :', a, ' waiting_on_job_prep =',
              a.waiting_on_job_prep)
        for _ in range(2):
            await drv.loop()
        print('jobs submitted while paused:', sim.journal)
        await commands.run_cmd(commands.resume(schd))
        await sc.drain()
        print('jobs submitted in all      :', sim.journal)
        bad = len([j for j in sim.journal if j[1] == 'a']) > 1
        print('DEFECT REPRODUCED: 1/a was submitted twice for one trigger'
              if bad else 'not reproduced: 1/a was submitted once')
        return bad


try:
    bad = run_async(main())
finally:
    shutil.rmtree(scr, ignore_errors=True)
sys.exit(1 if bad else 0)
