"""C19 finding: a stale task_pool row survives shutdown when a command
callback merges a pooled task into another flow while the scheduler waits
for the process pool to empty; after the restart the task may come back in
its old state (old flow numbers, old status, old outputs).

Scheduler.workflow_shutdown(), once the workflow may stop:

    await self.update_data_structure()     # (1) put_task_pool(): queues
                                           #     DELETE-all + one INSERT per
                                           #     pooled task; NOT executed yet
    self.proc_pool.close()
    while self.proc_pool.is_not_done():    # (2) callbacks of the commands
        self.proc_pool.process()           #     still running are executed
    raise SchedulerStop(...)
Scheduler._shutdown():
    self.workflow_db_mgr.put_task_pool(self.pool)   # (3) queues DELETE-all
                                                    #     + INSERTs again
    self.process_workflow_db_queue()       # (4) one batch: all deletes
                                           #     first, then all inserts

If a callback in (2) changes a task's flow numbers (its parent's polled
output spawns it again from another flow -> TaskPool.merge_flows), the row
queued in (1) has a primary key (cycle, name, flow_nums) that (3) does not
write again; in (4) both DELETE-alls run before both sets of INSERTs, so the
row from (1) stays in the task_pool table next to the new one.  On restart
the task is loaded twice and the copy loaded last wins - here the stale one.
(A task *removed* in (2) is safe only because TaskPool.remove() happens to
flush the queue first.)

Below: `a:started => ab`; ab was triggered with --flow=new and is submitted
in flow 2; a (flow 1) has started but the message has not arrived; a
`cylc poll` of a is in flight when `cylc stop --now` is given.

C19: a restart restores the task pool as it was at shutdown.

Candidate fix: execute the queued DB operations (process_queued_ops) right
after (1), or drop (1)'s queued task_pool operations when (3) re-queues the
table.

Uses the verification harness (vf.sim: real Scheduler objects, single-stepped
main loop, virtual job cluster) because a stop/restart needs a scheduler.
Run: cd /verif && PYTHONPATH=/verif:/repo /venv/bin/python \
         findings/C19_stale_task_pool_row_after_shutdown_drain.py
"""
import os
import shutil
import sqlite3
import sys
import tempfile

scr = tempfile.mkdtemp(prefix='vf-finding-')
os.environ['HOME'] = scr + '/home'
os.makedirs(os.environ['HOME'])
os.environ['CYLC_CONF_PATH'] = scr + '/conf'
os.chdir(scr)
sys.path[:0] = [os.path.dirname(os.path.dirname(os.path.abspath(__file__))),
                os.environ.get('VF_REPO', '/repo')]

from vf import core  # noqa: E402
from vf.sim.drive import SCase, run_async  # noqa: E402


def spec_for(tasks, fcp, custom=None, retries=None):
    """Minimal harness AST (only used for job scripts / point maps); the
    workflow itself is the FLOW text below."""
    return {
        'mode': 'integer', 'icp': 1, 'fcp': fcp, 'tasks': tasks,
        'custom': custom or {}, 'retries': retries or {}, 'extra': {},
        'opt': {t: {'succ': False, 'submit': False, 'fail_required': False,
                    'custom': {}} for t in tasks},
        'sections': [{'rec': {'kind': 'P', 'step': 1, 'off': 0, 'excl': []},
                      'lines': [{'lhs': None, 'rhs': [t]} for t in tasks]}],
    }


def pool(sim):
    return {f"{t['cycle']}/{t['name']}": t for t in sim.pool_snapshot()}


def show(sim, title):
    print(title)
    for ident, t in sorted(pool(sim).items()):
        print(f"    {ident}: status={t['status']} held={bool(t['held'])} "
              f"flows={t['flows']} submit_num={t['submit_num']} "
              f"outputs={t['outputs']}")
    if not pool(sim):
        print('    (empty)')


async def fair_round(sc, only=None):
    """Everything pending returns, every job (of task `only`) takes one
    step, every message is delivered, one main-loop iteration."""
    sim = sc.sim
    for it in sim.pending_cmds():
        sim.mark_returned(it)
    for job in sorted(sim.live_jobs(), key=lambda j: j.key):
        if only is None or job.name == only:
            sim.advance(job)
    for m in list(sim.inflight):
        sim.deliver(m)
    await sc.drv.loop()


def table(sim, name):
    con = sqlite3.connect(sim.schd.workflow_db_mgr.pri_path)
    try:
        return con.execute(f'SELECT * FROM {name}').fetchall()
    finally:
        con.close()


def make_ctx():
    return core.Ctx('C19', 'quick', 1, 0, 1, scr, core.Collector('C19'))

FLOW = """
[scheduler]
    allow implicit tasks = True
[scheduling]
    cycling mode = integer
    initial cycle point = 1
    final cycle point = 1
    [[graph]]
        P1 = "a:started => ab"
[runtime]
    [[root]]
        script = true
"""
SPEC = spec_for(['a', 'ab'], 1)
CASE = {'spec': SPEC, 'schedule': [], 'outcomes': {}}


def brief(snap):
    return sorted((f"{t['cycle']}/{t['name']}", t['status'],
                   tuple(t['flows']), tuple(t['outputs'])) for t in snap)


async def main():
    from cylc.flow import commands
    async with SCase(CASE, make_ctx(), flow_text=FLOW) as sc:
        sim = sc.sim
        await commands.run_cmd(commands.force_trigger_tasks(
            sim.schd, ['1/ab'], ['new']))
        # a (flow 1) and ab (flow 2) submitted
        for _ in range(3):
            for it in sim.pending_cmds():
                sim.mark_returned(it)
            await sc.drv.loop()
        # a's job starts; its message is still on its way
        job_a = sim.jobs[('1', 'a', 1)]
        sim.advance(job_a)
        assert job_a.started and sim.inflight
        # user polls a; the poll command is launched (sees: running)
        await commands.run_cmd(commands.poll_tasks(sim.schd, ['1/a']))
        await sc.drv.loop()
        show(sim, 'pool when `cylc stop --now` is given (poll of 1/a in '
                  'flight):')
        await sc.drv.stop_and_wait('now')
        sd = [e for e in sim.trace if e['k'] == 'shutdown'][-1]
        at_shutdown = brief(sd['pool'])
        print('pool at Scheduler.shutdown():')
        for t in at_shutdown:
            print('   ', t)
        print('task_pool table after shutdown:')
        for row in table(sim, 'task_pool'):
            print('   ', row)
        await sc.drv.restart()
        show(sim, 'pool after restart:')
        after = brief(sim.pool_snapshot())
    return at_shutdown, after


at_shutdown, after = run_async(main())
shutil.rmtree(scr, ignore_errors=True)
a = {t[0]: t[1:3] for t in at_shutdown}
b = {t[0]: t[1:3] for t in after}
if a != b:
    print(f'POOL NOT RESTORED (status, flows): at shutdown {a}, after '
          f'restart {b}')
    sys.exit(1)
