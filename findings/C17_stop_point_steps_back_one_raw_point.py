"""C17: ISO8601Sequence.get_stop_point() steps back exactly one *raw* point
from an excluded last point, without checking that point.

Run: PYTHONPATH=/repo /venv/bin/python findings/C17_stop_point_steps_back_one_raw_point.py

cylc/flow/cycling/iso8601.py get_stop_point():
    ret = ISO8601Point(str(curr))
    if self.exclusions and ret in self.exclusions:
        return ISO8601Point(str(prev))        # prev may be excluded / None

Candidate fix: walk back (e.g. `self.get_prev_point(ret)`, which already
skips exclusions and returns None at the start) instead of `prev`.
"""
from cylc.flow.cycling import iso8601
from cylc.flow.cycling.iso8601 import ISO8601Sequence

iso8601.init(time_zone='Z', cycling_mode='gregorian')
bad = 0

seq = ISO8601Sequence(
    'R3/20200101T00Z/P1D!(20200103T00Z,20200102T00Z)', '20200101T00Z', None)
raw = [str(p) for p in seq.recurrence]
members = [p for p in raw if seq.is_valid(iso8601.ISO8601Point(p))]
stop = seq.get_stop_point()
print('iteration          :', raw)
print('minus exclusions   :', members)
print('get_stop_point()   :', stop, '(is_valid: %s)' % seq.is_valid(stop))
if str(stop) != members[-1]:
    print('WRONG: the stop point is an excluded point; expected', members[-1])
    bad += 1

seq = ISO8601Sequence('R1!20200101T00Z', '20200101T00Z', None)
stop = seq.get_stop_point()
print()
print('R1!<initial point>: iteration', [str(p) for p in seq.recurrence],
      'all excluded; get_start_point() =', seq.get_start_point())
print('get_stop_point()   : %r' % stop)
if stop is not None:
    print("WRONG: expected None, got a point whose value is the string "
          "'None' (any comparison with it raises ISO8601SyntaxError)")
    bad += 1
raise SystemExit(1 if bad else 0)
