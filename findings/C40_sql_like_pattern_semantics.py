"""C40: workflow-state queries translate the ID wildcard '*' to SQL LIKE.

`cylc workflow-state --help` says: 'In the ID, both cycle and task can include
"*" to match any sequence of zero or more characters.'  Every other character
should match only itself.  CylcWorkflowDBChecker.workflow_state_query
(cylc/flow/dbstatecheck.py) does `task.replace('*', '%')` and `name like ?`,
so as soon as a pattern contains a '*':
  (1) '_' in the pattern matches ANY single character and '%' any sequence
      (both are legal task-name characters),
  (2) matching becomes ASCII case-insensitive (SQLite LIKE default).
Without '*' the query uses `name==?` and is exact, so behaviour is inconsistent.

Consequence shown below through the public xtrigger function: the
workflow_state xtrigger for task pattern "get_b*" is satisfied by the
unrelated task "getXb1" (and by "GET_B1"), although no task matching the
pattern was recorded.

Run:  PYTHONPATH=/repo /venv/bin/python findings/C40_sql_like_pattern_semantics.py
"""
import contextlib
import io
import os
import tempfile

from cylc.flow.dbstatecheck import CylcWorkflowDBChecker
from cylc.flow.rundb import CylcWorkflowDAO
from cylc.flow.xtriggers.workflow_state import workflow_state


def make_db(run_dir, names):
    os.makedirs(os.path.join(run_dir, 'w', 'log'))
    path = os.path.join(run_dir, 'w', 'log', 'db')
    dao = CylcWorkflowDAO(path, create_tables=True)
    for name in names:
        dao.add_insert_item('task_states', {
            'name': name, 'cycle': '1', 'flow_nums': '[1]',
            'submit_num': 1, 'status': 'succeeded'})
    dao.execute_queued_items()
    dao.close()
    return path


bad = 0
d = tempfile.mkdtemp()
path = make_db(d, ['A%', 'A_', 'a%', 'AXY'])
with CylcWorkflowDBChecker('-', '-', db_path=path) as checker:
    for pattern, want in [
        ('*A%', ['A%']),      # '%' should be literal
        ('A_*', ['A_']),      # '_' should be literal
        ('A*', ['A%', 'AXY', 'A_']),   # case-sensitive
    ]:
        got = sorted(r[0] for r in checker.workflow_state_query(task=pattern))
        ok = got == sorted(want)
        bad += not ok
        print(f'task pattern {pattern!r}: got {got}, documented {sorted(want)}'
              f'  -> {"ok" if ok else "WRONG"}')

# public path: the xtrigger is satisfied by a task that does not match
d2 = tempfile.mkdtemp()
make_db(d2, ['getXb1'])
with contextlib.redirect_stdout(io.StringIO()):
    satisfied, _ = workflow_state('w//1/get_b*', alt_cylc_run_dir=d2)
print(f"xtrigger workflow_state('w//1/get_b*') with only task 'getXb1' "
      f"recorded: satisfied={satisfied} -> {'WRONG' if satisfied else 'ok'}")
bad += bool(satisfied)
d3 = tempfile.mkdtemp()
make_db(d3, ['GET_B1'])
with contextlib.redirect_stdout(io.StringIO()):
    satisfied, _ = workflow_state('w//1/get_b*', alt_cylc_run_dir=d3)
print(f"xtrigger workflow_state('w//1/get_b*') with only task 'GET_B1' "
      f"recorded: satisfied={satisfied} -> {'WRONG' if satisfied else 'ok'}")
bad += bool(satisfied)
print('DEFECT REPRODUCED' if bad else 'not reproduced')
