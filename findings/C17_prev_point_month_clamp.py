"""C17: get_prev_point / get_nearest_prev_point on a month-step recurrence
whose day-of-month was clamped while iterating.

Run: PYTHONPATH=/repo /venv/bin/python findings/C17_prev_point_month_clamp.py

Iteration adds the step (31 Aug + P1M = 30 Sep, ... 30 Jan + P1M = 29 Feb),
get_prev_point subtracts it from the query point (29 Feb - P1M = 29 Jan),
which is not the previously iterated point.  The result is a point that is
not on the sequence, or None when it falls before the start.

Candidate fix: in get_prev_point verify `prev + step == point` (else walk the
recurrence from the start as get_nearest_prev_point does for off-sequence
points).
"""
from cylc.flow.cycling import iso8601
from cylc.flow.cycling.iso8601 import ISO8601Point, ISO8601Sequence

iso8601.init(time_zone='Z', cycling_mode='gregorian')
bad = 0
for expr, q in (('R8/20190831T00Z/P1M', '20200229T0000Z'),
                ('R4/20200131T00Z/P1M', '20200229T0000Z')):
    seq = ISO8601Sequence(expr, '20190101T00Z', None)
    raw = [str(p) for p in seq.recurrence]
    want = raw[raw.index(q) - 1]
    p = ISO8601Point(q)
    print(expr, 'iteration:', raw)
    for name in ('get_prev_point', 'get_nearest_prev_point'):
        got = getattr(seq, name)(p)
        ok = str(got) == want
        print('  %s(%s) = %s   expected %s%s' % (
            name, q, got, want, '' if ok else '   WRONG' + (
                ' (is_valid: %s)' % seq.is_valid(got) if got else '')))
        bad += not ok
raise SystemExit(1 if bad else 0)
