"""C28 finding: `cylc trigger --flow=new` (or --flow=N) of a group does not
re-run a member that has already run in flow F when the group-start member
upstream of it is still in the pool in flow F.

Graph `a:started => b` (one cycle), 1/a is required to succeed.
Flow 1: 1/a starts (1/b is spawned, runs, succeeds, leaves the pool) and then
fails: 1/a stays in the pool as failed/incomplete, flows {1}.

  cylc trigger --flow=new //1/a //1/b

  * expected (statement C28: "each member run[s] once more in the triggered
    flow ... other members run only after their in-group prerequisites are
    satisfied"): 1/a runs again, and once it has started 1/b runs again, in
    flow 2 - that is what happens if 1/a had left the pool before the
    trigger, and with the default flow option;
  * actual: 1/a runs again - in flows {1,2}: it is a non-live *active*
    group-start task, so _force_trigger_tasks merges the new flow into the
    pooled proxy (schd.pool.merge_flows(itask, flow_nums)).  When its new
    job reports `started`, the child 1/b is to be spawned in flows {1,2};
    TaskPool.spawn_task() finds that 1/b has already run to completion in an
    overlapping flow (flow 1: _remove_matched_tasks erased the history of
    the group for the triggered flow {2} only) and does not spawn it.  1/b
    never runs again; nothing is logged above debug level.

No small safe repair: giving the retained start proxy the triggered flow
only (instead of merging), or erasing the members' history in the start
task's old flows as well, changes the documented flow-merge semantics
("Just merge the flows", tests/integration/test_force_trigger.py::
test_trigger_group_in_flow) - a maintainers' decision.

Drives the real Scheduler through the /verif stepped engine (vf.sim).  Run:
    cd /verif && PYTHONPATH=/verif:/repo /venv/bin/python \
        findings/C28_start_parent_merged_flows_block_member_rerun.py
"""
import os
import shutil
import sys
import tempfile

scr = tempfile.mkdtemp(prefix='vf-finding-')
os.environ['HOME'] = scr + '/home'
os.makedirs(os.environ['HOME'])
os.environ['CYLC_CONF_PATH'] = scr + '/conf'
os.chdir(scr)
sys.path[:0] = [os.path.dirname(os.path.dirname(os.path.abspath(__file__))),
                os.environ.get('VF_REPO', '/repo')]

from vf import core  # noqa: E402
from vf.sim.drive import SCase, run_async  # noqa: E402

SPEC = {
    'mode': 'integer', 'icp': 1, 'fcp': 1, 'tasks': ['a', 'b'], 'custom': {},
    'opt': {t: {'succ': False, 'submit': False, 'fail_required': False,
                'custom': {}} for t in ('a', 'b')},
    'retries': {}, 'extra': {},
    'sections': [{'rec': {'kind': 'R1', 'at': 1, 'form': 0},
                  'lines': [{'lhs': {'t': 'a', 'off': None, 'abs': None,
                                     'out': 'started', 'implicit': False,
                                     'longform': False},
                             'rhs': ['b']}]}],
}
CASE = {'spec': SPEC, 'outcomes': {'1/a': [{'final': 'failed'}]},
        'schedule': []}


async def fair_rounds(sc, n):
    sim = sc.sim
    for _ in range(n):
        if not sim.running:
            return
        for it in sim.pending_cmds():
            sim.mark_returned(it)
        for job in sorted(sim.live_jobs(), key=lambda j: j.key):
            sim.advance(job)
        for msg in list(sim.inflight):
            sim.deliver(msg)
        await sc.drv.loop()


async def main():
    from cylc.flow import commands
    ctx = core.Ctx('C28', 'quick', 1, 0, 1, scr, core.Collector('C28'))
    async with SCase(CASE, ctx) as sc:
        assert not sc.rejected, sc.rejected
        sim = sc.sim
        schd = sim.schd
        print(sc.drv.flow_text)
        await fair_rounds(sc, 10)
        print('flow 1, jobs submitted:', sim.journal)
        print('pool before the trigger:',
              [str(t) for t in schd.pool.get_tasks()])
        n0 = len(sim.journal)
        await commands.run_cmd(commands.force_trigger_tasks(
            schd, ['1/a', '1/b'], ['new']))
        print('pool after `trigger --flow=new 1/a 1/b`:',
              {t.identity: sorted(t.flow_nums)
               for t in schd.pool.get_tasks()})
        await fair_rounds(sc, 12)
        new = sim.journal[n0:]
        print('jobs submitted after the trigger:', new)
        a = schd.pool._get_task_by_id('1/a')
        print('1/a outputs now:', sorted(
            a.state.outputs.get_completed_outputs()) if a else None)
        bad = ('1', 'a', 2) in new and not [j for j in new if j[1] == 'b']
        print('DEFECT REPRODUCED: 1/a ran again and started, 1/b was not '
              're-run' if bad else 'not reproduced')
        return bad


try:
    bad = run_async(main())
finally:
    shutil.rmtree(scr, ignore_errors=True)
sys.exit(1 if bad else 0)
