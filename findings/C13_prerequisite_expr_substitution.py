"""C13: Prerequisite.set_conditional_expr cannot build the Python expression
for some valid upstream outputs, so is_satisfied() raises.

Run:  PYTHONPATH=/repo /venv/bin/python findings/C13_prerequisite_expr_substitution.py

set_conditional_expr() (used whenever the expression contains "|") replaces
each "POINT/TASK MESSAGE" with 'bool(self._satisfied[("POINT", "TASK",
"MESSAGE")])' using re.sub(r"\\bPOINT/TASK MESSAGE\\b", ...):

(1) expanded-year-point-not-substituted: with `cycle point num expanded
    year digits` every point starts with "+"; only a leading "-" is special-
    cased, "\\b\\+0020200101T0000Z" never matches: ANY "|" trigger fails.
(2) message-nonword-end-not-substituted: a custom output message ending in
    a non-word character ("data ready!", "done.") never matches the trailing
    \\b.  (Messages are free text for TaskMessageValidator.)
(3) message-double-quote-or-backslash: the message is spliced into a
    double-quoted Python string unescaped.
(4) message-word-prefix-of-other-message: "ready" is substituted inside
    "ready now" of the same task when it is processed first.

All four workflows are accepted by WorkflowConfig; `cylc validate` reports
"ERROR: bad trigger" only if the task exists at the initial cycle point.
"""
import os
import sys
import tempfile
from pathlib import Path

if os.environ.get('PYTHONHASHSEED') != '0':
    # (4) depends on the iteration order of a set of TaskTrigger objects
    # (string hashing): pin it so the run is reproducible
    os.environ['PYTHONHASHSEED'] = '0'
    os.execv(sys.executable, [sys.executable] + sys.argv)

from cylc.flow.config import WorkflowConfig
from cylc.flow.cycling.loader import get_point
from cylc.flow.id import Tokens
from cylc.flow.scripts.validate import ValidateOptions
from cylc.flow.task_proxy import TaskProxy

INT = ('    cycling mode = integer\n    initial cycle point = 1', 'P1', '1', '')
CASES = [
    ('expanded-year-point-not-substituted',
     ('    initial cycle point = +0020200101T0000Z', 'PT6H',
      '+0020200101T0000Z',
      '    cycle point num expanded year digits = 2\n'
      '    cycle point time zone = Z'),
     'a | b => tgt', ''),
    ('message-nonword-end-not-substituted', INT,
     'a:x | b => tgt',
     '    [[a]]\n        [[[outputs]]]\n            x = "data ready!"'),
    ('message-double-quote-or-backslash', INT,
     'a:x | b => tgt',
     "    [[a]]\n        [[[outputs]]]\n            x = 'a \"quoted\" msg'"),
]
# (4) is order dependent: try a few upstream task names
for name in 'acdefg':
    CASES.append(
        ('message-word-prefix-of-other-message', INT,
         f'{name}:y | {name}:x | b => tgt',
         f'    [[{name}]]\n        [[[outputs]]]\n            x = "ready"\n'
         '            y = "ready now"'))

wrong = 0
for label, (sched, rec, point, schd), graph, runtime in CASES:
    d = Path(tempfile.mkdtemp())
    (d / 'flow.cylc').write_text(f'''
[scheduler]
    allow implicit tasks = True
{schd}
[scheduling]
{sched}
    [[graph]]
        {rec} = """
            {graph}
        """
[runtime]
    [[root]]
{runtime}
''')
    cfg = WorkflowConfig('w', str(d / 'flow.cylc'), ValidateOptions())
    itask = TaskProxy(
        Tokens('~u/w'), cfg.taskdefs['tgt'], get_point(point).standardise())
    print(f'--- {label}:  {graph}   {runtime.strip().splitlines()[-2:]}')
    for prereq in itask.state.prerequisites:
        print('    keys:', [tuple(k) for k in prereq.keys()])
        print('    conditional expression:', prereq.conditional_expression)
    try:
        print('    satisfied:', itask.state.prerequisites_all_satisfied())
    except Exception as exc:
        wrong += 1
        print(f'    is_satisfied() raised {type(exc).__name__}: '
              f'{str(exc).splitlines()[-1]}')

print()
print(f'WRONG: {wrong}/{len(CASES)} accepted trigger expressions cannot be '
      'evaluated (the last 6 are the same expression with different task '
      'names: order dependent)' if wrong else 'ok: not reproduced')
