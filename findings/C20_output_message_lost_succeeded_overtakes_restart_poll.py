"""C20: a custom output received but not committed at a crash is lost when "succeeded" overtakes the restart poll and the scheduler dies again.

A job message that was received (queued / processed in memory) but not yet
committed when the scheduler dies is recoverable only through the restart
poll.  If the job's `succeeded` message is processed before the poll callback,
the task completes, is removed and that state is committed; the polled custom
message is applied to the removed proxy afterwards and written by a LATER
commit.  A second kill between those two commits (here: after the poll
callback) leaves a database in which the task is finished without the output;
nothing polls a finished task again, so the output - and whatever it triggers -
is lost for good.  (With a single crash the late poll result still reaches
task_outputs.)  Low severity design race; recorded because it contradicts "to
the same final outputs".

How to run:  PYTHONPATH=/verif:/repo /venv/bin/python findings/C20_output_message_lost_succeeded_overtakes_restart_poll.py

This reproduction drives the REAL cylc Scheduler with the stepped-scheduler
harness of the verification framework (vf.sim engine + vf/props/c20.py): a
plain script is impractical because the scheduler has to be killed at one
exact database statement / main-loop position.  Every scheduler incarnation
below runs in its own forked child process and "killed" means
os._exit(137) in that child (no shutdown code, no commit, open transaction
abandoned); jobs are scripted on a virtual cluster; the next incarnation is a
new Scheduler object in a new process on the same run directory.
Candidate minimal fix: hold back received final-status messages of tasks whose restart poll is still outstanding, or process the poll result before queued messages on restart.
"""
import json
import os
import sys

sys.path[:0] = [os.environ.get('VF_ROOT', '/verif'),
                os.environ.get('VF_REPO', '/repo')]
import vf.props.c20 as c20  # noqa: E402

# kills = [[class index into c20.KILL_CLASSES, n-th point of that class,
#           effect number of a second kill in the restarted scheduler (0 =
#           none), job progress while down (0 none / 1 one step / 2 to end)]]
CASE = json.loads(r'''{"spec": {"mode": "integer", "icp": 1, "fcp": 1, "retries": {}, "extra": {}, "custom": {"a": {"x": "x"}}, "tasks": ["a"], "opt": {"a": {"succ": false, "submit": false, "fail_required": false, "custom": {"x": true}}}, "sections": [{"rec": {"kind": "R1", "at": 1, "form": 0}, "lines": [{"lhs": null, "rhs": ["a"]}]}]}, "outcomes": {}, "ret_delays": [], "kills": [[7, 1, 50, 0]]}''')

if __name__ == '__main__':
    res = c20.explain(CASE)
    want = 'C20:final-outputs-differ-from-uninterrupted-run:output-message-lost-in-crash-and-task-completed-before-restart-poll-returned'
    ok = any(v.sig == want for v in res.violations)
    print()
    print('REPRODUCED' if ok else 'NOT REPRODUCED', want)
    sys.exit(0 if ok else 1)
