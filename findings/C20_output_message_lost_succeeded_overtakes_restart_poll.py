"""C20: a custom output received but not committed at a crash is lost - with the
tasks it triggers - when the job's "succeeded" overtakes the restart poll.

Workflow `a:x? => b`.  The message of x has been received (it sits in the
scheduler's message queue) when the scheduler dies; it is recoverable only
through the restart poll.  After the restart the job's `succeeded` message is
processed BEFORE the poll callback: a completes (x is optional) and leaves the
pool.  The poll result then reports x for a task that is no longer in the
pool: nothing is spawned or satisfied, b never runs and the workflow shuts
down as complete.  (Without a dependent the late poll result still reaches
task_outputs unless the scheduler dies a second time before that commit:
signature C20:final-outputs-differ-...:output-message-lost-in-crash-and-task-
completed-before-restart-poll-returned, kills [[7, 1, 50, 0]] on the one-task
workflow.)  Design-level race of modest severity; recorded because it
contradicts "still runs every task instance that an uninterrupted run would
run, to the same final outputs".

How to run:  PYTHONPATH=/verif:/repo /venv/bin/python findings/C20_output_message_lost_succeeded_overtakes_restart_poll.py

This reproduction drives the REAL cylc Scheduler with the stepped-scheduler
harness of the verification framework (vf.sim engine + vf/props/c20.py): a
plain script is impractical because the scheduler has to be killed at one
exact database statement / main-loop position.  Every scheduler incarnation
below runs in its own forked child process and "killed" means
os._exit(137) in that child (no shutdown code, no commit, open transaction
abandoned); jobs are scripted on a virtual cluster; the next incarnation is a
new Scheduler object in a new process on the same run directory.
Candidate minimal fix: hold back received final-status messages of tasks whose restart poll is still outstanding, or process the poll result before queued messages on restart.
"""
import json
import os
import sys

sys.path[:0] = [os.environ.get('VF_ROOT', '/verif'),
                os.environ.get('VF_REPO', '/repo')]
import vf.props.c20 as c20  # noqa: E402

# kills = [[class index into c20.KILL_CLASSES, n-th point of that class,
#           effect number of a second kill in the restarted scheduler (0 =
#           none), job progress while down (0 none / 1 one step / 2 to end)]]
CASE = json.loads(r'''{"spec": {"mode": "integer", "icp": 1, "fcp": 1, "retries": {}, "extra": {}, "custom": {"a": {"x": "x"}}, "tasks": ["a", "b"], "opt": {"a": {"succ": false, "submit": false, "fail_required": false, "custom": {"x": true}}, "b": {"succ": false, "submit": false, "fail_required": false, "custom": {}}}, "sections": [{"rec": {"kind": "R1", "at": 1, "form": 0}, "lines": [{"lhs": null, "rhs": ["a"]}, {"lhs": {"t": "a", "off": null, "abs": null, "out": "x", "implicit": false, "longform": false}, "rhs": ["b"]}]}]}, "outcomes": {}, "ret_delays": [], "kills": [[7, 1, 0, 0]]}''')

if __name__ == '__main__':
    res = c20.explain(CASE)
    want = ('C20:instance-never-run-after-crash-restart:downstream-of-output-'
            'message-lost-in-crash-and-task-completed-before-restart-poll-'
            'returned')
    ok = any(v.sig == want for v in res.violations)
    print()
    print('REPRODUCED' if ok else 'NOT REPRODUCED', want)
    sys.exit(0 if ok else 1)
