"""C16: 'Pk/END' (format 4 without repetitions) ignores END as the anchor.

integer.py: "format 4: start at END, keep subtracting INTV" and
"INTV/END, implies R/INTV/END, count backwards from END".  With repetitions
(R3/P3/9) the points are counted back from END; without, the start point is
computed from the *final cycle point* instead of END
(`remainder = (p_context_stop - p_start) % step`), so the points are only
right when END == final point (mod step), and with no final cycle point the
constructor crashes with TypeError (None - IntegerPoint).
"""
from cylc.flow.cycling.integer import IntegerSequence, IntegerPoint


def pts(expr, a, b):
    try:
        seq = IntegerSequence(expr, a, b)
        return [i for i in range(-2, 25) if seq.is_valid(IntegerPoint(str(i)))]
    except Exception as exc:
        return repr(exc)


bad = 0
for expr, a, b, want in [
    ('R3/P3/9', '1', '10', [3, 6, 9]),      # with reps: anchored on END
    ('P3/9', '1', '10', [3, 6, 9]),         # without: should be the same set
    ('P2/4', '2', '7', [2, 4]),
    ('P3/9', '1', None, [3, 6, 9]),         # no final point: TypeError
]:
    got = pts(expr, a, b)
    ok = got == want
    bad += not ok
    print(f'IntegerSequence({expr!r}, {a!r}, {b!r}): expected {want}, got '
          f'{got}', 'OK' if ok else '<-- WRONG')
print('DEFECT REPRODUCED' if bad else 'not reproduced')
