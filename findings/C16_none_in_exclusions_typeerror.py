"""C16: TypeError when an out-of-bounds (None) point is tested against
exclusions that contain an exclusion *sequence*.

get_prev_point:           if self.exclusions and ret in self.exclusions
get_nearest_prev_point:   if self.exclusions and prev_point in self.exclusions
get_stop_point:           if self.exclusions and self.p_stop in self.exclusions
do not guard against ret / prev_point / p_stop being None (get_next_point
does: "ret and ret in ...").  ExclusionBase.__contains__ then calls
seq.is_valid(None) on each exclusion sequence -> None - IntegerPoint ->
TypeError.  So with an exclusion sequence (e.g. 'P1!+P1/P2'):
  * get_prev_point / get_nearest_prev_point of the first point (what a
    sequential task asks for its first instance) crash instead of None;
  * get_stop_point crashes when there is no final cycle point.
"""
from cylc.flow.cycling.integer import IntegerSequence, IntegerPoint

bad = 0
for expr, a, b, call, arg in [
    ('P1!+P1/P2', '2', '8', 'get_prev_point', 2),
    ('P1!+P1/P2', '2', '8', 'get_nearest_prev_point', 2),   # via get_prev_point
    ('5/P2!+P2/P4', '2', '9', 'get_nearest_prev_point', 4),  # own check
    ('P1!+P1/P2', '2', None, 'get_stop_point', None),
    ('P1!3', '2', '8', 'get_prev_point', 2),     # exclusion point only: fine
]:
    seq = IntegerSequence(expr, a, b)
    args = () if arg is None else (IntegerPoint(str(arg)),)
    try:
        got = getattr(seq, call)(*args)
    except TypeError as exc:
        got = repr(exc)
    ok = got is None
    bad += not ok
    print(f'IntegerSequence({expr!r}, {a!r}, {b!r}).{call}('
          f'{"" if arg is None else arg}): expected None, got {got}',
          'OK' if ok else '<-- WRONG')
print('DEFECT REPRODUCED' if bad else 'not reproduced')
