"""[FIXED by repo commit 98fc1d0; now prints "not reproduced"]
C16: get_next_point(p) is None for p more than one step below the start.

IntegerSequence.get_next_point docstring: "Return the next point > point, or
None if out of bounds".  For a one-off sequence a point below the start gives
the start point, and ISO8601Sequence.get_next_point returns the first point of
the recurrence for any earlier point; but for a stepped integer sequence
    i = (point - p_start) % step;  next_point = point + step - i
is only the next *on-step* point, which is below p_start (-> "out of bounds"
-> None) whenever point < p_start - step.  Callers pass points of other
sequences of the same task (TaskDef.next_point_parentless,
taskdef.generate_graph_children for sequential tasks), so e.g. a task on
'R1' and on '5/P2' is never spawned at 5 from its instance at 0.
"""
from cylc.flow.cycling.integer import IntegerSequence, IntegerPoint

bad = 0
for expr, a, b, p, want in [
    ('5/P2', '0', '9', 0, 5),
    ('R2/P1', '0', '4', 0, 3),
    ('R2/P2', '4', '9', 4, 7),
    ('5/P2', '0', '9', 3, 5),     # within one step below the start: works
]:
    seq = IntegerSequence(expr, a, b)
    got = seq.get_next_point(IntegerPoint(str(p)))
    ok = got is not None and int(got) == want
    bad += not ok
    print(f'IntegerSequence({expr!r}, {a!r}, {b!r}).get_next_point({p}): '
          f'expected {want}, got {got}', 'OK' if ok else '<-- WRONG')
print('DEFECT REPRODUCED' if bad else 'not reproduced')
