"""C25 finding (root cause in reload / trigger): `cylc trigger X` followed by
`cylc reload` before the next job-release step leaves the pre-reload
TaskProxy of X in `TaskPool.tasks_to_trigger_now`; the next main-loop
iteration pushes that stale object through job preparation again, and the
data store then shows X with the state of an object that is not in the pool.

Mechanism:

  * force_trigger_tasks -> TaskPool.queue_or_trigger puts the TaskProxy in
    `TaskPool.tasks_to_trigger_now` and sets `waiting_on_job_prep`.
  * commands.reload_workflow sets `schd.reload_pending` and loops on
    `schd.release_tasks_to_run()`; with reload_pending set that method does
    NOT consume `tasks_to_trigger_now`, it picks the task up through
    `waiting_on_job_prep` and submits it (job 01).  `tasks_to_trigger_now`
    still holds the object.
  * TaskPool._reload_taskdefs replaces every pooled proxy by a successor
    (`_swap_out`); nothing updates `tasks_to_trigger_now`.
  * next main-loop iteration: release_tasks_to_run() takes the *old* proxy
    (status submitted, submit_num 1) from tasks_to_trigger_now and passes it
    to job submission again: the stale object goes submitted -> preparing
    with submit number 2 (no second jobs-submit command was seen here; the
    object stays `preparing`).  Its delta_task_state() overwrites the pooled
    task's entry in the data store: pool `submitted`, store `preparing`.
  * when the reload also removed the task's definition the proxy is not
    swapped; then the *pooled* task itself goes submit-failed/submitted ->
    preparing, stays there, and the next `cylc reload` never returns (its
    "wait for preparing tasks" loop has nothing to wait for) - seen as an
    engine abort in /verif replays, not judged by C25/C27.

In production both commands have to be handled by the same
`process_command_queue()` call (two calls per main-loop iteration), e.g.
`cylc trigger w//1/a; cylc reload w`.

C25 statement: "After every data-store update in the main loop, every task
in the pool appears in the published data store with the same status ...".

History (real Scheduler on the virtual cluster of /verif/vf/sim; one task a,
one cycle): trigger 1/a; reload (unchanged definition); six iterations.

Run: cd /verif && PYTHONPATH=/verif:/repo /venv/bin/python findings/\
C25_triggered_task_reprepared_from_stale_proxy_after_reload.py

Candidate minimal fix: in release_tasks_to_run() consume
tasks_to_trigger_now also while reload_pending (or discard a task from it
once it has been handed to job submission), and in _reload_taskdefs replace
swapped proxies in tasks_to_trigger_now.
"""
from _c25_c27_common import (
    SCase, cleanup, ctx_for, reload_with, run_async, spec_of)


async def main():
    from cylc.flow import commands
    spec = spec_of(['a'])
    case = {'spec': spec, 'outcomes': {}, 'schedule': []}
    async with SCase(case, ctx_for('C25')) as sc:
        assert not sc.rejected, sc.rejected
        drv, sim = sc.drv, sc.sim
        schd = sim.schd
        old = schd.pool.get_tasks()[0]
        await commands.run_cmd(
            commands.force_trigger_tasks(schd, ['1/a'], []))
        print('after trigger: tasks_to_trigger_now =',
              [t.identity for t in schd.pool.tasks_to_trigger_now])
        await reload_with(sim, spec)
        new = schd.pool.get_tasks()[0]
        print('after reload : pooled proxy replaced:', new is not old,
              '| status', new.state.status, '| submit_num', new.submit_num,
              '| tasks_to_trigger_now holds the old object:',
              old in schd.pool.tasks_to_trigger_now)
        await drv.loop()
        await drv.loop()
        for it in sim.pending_cmds():
            sim.mark_returned(it)
        for _ in range(4):
            await drv.loop()
        dsm = schd.data_store_mgr
        tp = dsm.data[dsm.workflow_id]['task_proxies'][new.tokens.id]
        print('after 6 iterations: job submissions launched:', sim.journal)
        print('   pooled proxy :', new.state.status, 'submit_num',
              new.submit_num)
        print('   stale proxy  :', old.state.status, 'submit_num',
              old.submit_num)
        print('   data store   :', tp.state, 'job_submits', tp.job_submits)
        if tp.state != new.state.status or old.submit_num != new.submit_num:
            print('DEFECT: the pre-reload proxy was prepared again (submit '
                  'number', old.submit_num, '); data store state',
                  repr(tp.state), 'vs pooled task', repr(new.state.status))
        else:
            print('ok')


if __name__ == '__main__':
    try:
        run_async(main())
    finally:
        cleanup()
