"""C28 finding: group trigger with a *live* group-start member satisfies every
prerequisite the other members have on that task, not only those for outputs
the live job has already completed.

Graph `a => b`.  1/a has a running job (outputs submitted, started; NOT
succeeded).  `cylc trigger //1/a //1/b`:

  * 1/a is a group-start member with a live job: left to finish (correct);
  * 1/b has the in-group prerequisite 1/a:succeeded, so it must run only
    after 1/a has succeeded (statement C28; `cylc trigger --help`:
    "respecting dependencies among them");
  * actual: 1/b is respawned with `1/a:succeeded` *force satisfied* and its
    job is submitted at once, while 1/a is still running.

Cause (cylc/flow/commands.py, _force_trigger_tasks): the "replay completed
outputs of active group start tasks" step records
`active_completed_outputs[(point, name)] = (label, msg)` and later adds to
`prereqs_to_set` every prerequisite key of the member whose
`(key.point, key.task)` is in that dict - the output is not compared, so
having completed `submitted` is enough to satisfy `:succeeded` (or any
custom output).  Candidate fix: collect the set of completed messages per
task and require `key.output in completed[(key.point, key.task)]`.

Drives the real Scheduler through the /verif stepped engine (vf.sim), since
a live job is needed.  Run:
    cd /verif && PYTHONPATH=/verif:/repo /venv/bin/python \
        findings/C28_live_start_parent_all_outputs_replayed.py
"""
import os
import shutil
import sys
import tempfile

scr = tempfile.mkdtemp(prefix='vf-finding-')
os.environ['HOME'] = scr + '/home'
os.makedirs(os.environ['HOME'])
os.environ['CYLC_CONF_PATH'] = scr + '/conf'
os.chdir(scr)
sys.path[:0] = [os.path.dirname(os.path.dirname(os.path.abspath(__file__))),
                os.environ.get('VF_REPO', '/repo')]

from vf import core  # noqa: E402
from vf.sim.drive import SCase, run_async  # noqa: E402


def atom(t):
    return {'t': t, 'off': None, 'abs': None, 'out': 'succeeded',
            'implicit': True, 'longform': False}


SPEC = {
    'mode': 'integer', 'icp': 1, 'fcp': 1, 'tasks': ['a', 'b'], 'custom': {},
    'opt': {t: {'succ': False, 'submit': False, 'fail_required': False,
                'custom': {}} for t in ('a', 'b')},
    'retries': {}, 'extra': {},
    'sections': [{'rec': {'kind': 'R1', 'at': 1, 'form': 0},
                  'lines': [{'lhs': atom('a'), 'rhs': ['b']}]}],
}
CASE = {'spec': SPEC, 'outcomes': {}, 'schedule': []}


async def main():
    from cylc.flow import commands
    ctx = core.Ctx('C28', 'quick', 1, 0, 1, scr, core.Collector('C28'))
    async with SCase(CASE, ctx) as sc:
        assert not sc.rejected, sc.rejected
        drv, sim = sc.drv, sc.sim
        print(drv.flow_text)
        # 1/a: submitted, then running (its job has emitted "started" only)
        await sc.run_schedule([['loop', 0], ['loop', 0], ['ret', 0],
                               ['loop', 0], ['adv', 0], ['del', 0],
                               ['loop', 0]])
        a = sim.schd.pool._get_task_by_id('1/a')
        print('before trigger: 1/a is', a.state.status, 'outputs',
              sorted(a.state.outputs.get_completed_outputs()))
        assert a.state.status == 'running'
        await commands.run_cmd(commands.force_trigger_tasks(
            sim.schd, ['1/a', '1/b'], []))
        b = sim.schd.pool._get_task_by_id('1/b')
        sat = {f'{k.point}/{k.task}:{k.output}': v
               for pre in b.state.prerequisites for k, v in pre.items()}
        print('after  trigger: 1/b prerequisites', sat)
        # main loop iterations only: 1/a's job emits nothing more
        for _ in range(4):
            await drv.loop()
        a = sim.schd.pool._get_task_by_id('1/a')
        print('1/a is still', a.state.status, 'outputs',
              sorted(a.state.outputs.get_completed_outputs()))
        launched = [j for j in sim.journal if j[1] == 'b']
        print('jobs of 1/b submitted so far:', launched)
        bad = bool(launched) and 'succeeded' not in \
            a.state.outputs.get_completed_outputs()
        print('DEFECT REPRODUCED: 1/b ran before its in-group prerequisite '
              '1/a:succeeded' if bad else 'not reproduced')
        return bad


try:
    ok = run_async(main())
finally:
    shutil.rmtree(scr, ignore_errors=True)
sys.exit(0 if ok else 1)
