"""C16: clipping a bounded recurrence to the final cycle point is wrong.

IntegerSequence.__init__, "stop at first point <= context stop":
    remainder = (p_context_stop - p_start) % step
    p_stop = p_context_stop - step + remainder
The last on-sequence point <= context stop is p_context_stop - remainder.
The computed stop point is off-sequence in general (get_stop_point returns a
point that is not valid) and, when 2*remainder < step, below the true last
point, so a valid point is lost (always when the final point is itself on
the progression: remainder == 0 drops it).
"""
from cylc.flow.cycling.integer import IntegerSequence, IntegerPoint

bad = 0
for expr, a, b, want in [
    ('R5/0/P3', '0', '10', [0, 3, 6, 9]),    # 0..12 clipped at 10
    ('R5/0/P3', '0', '9', [0, 3, 6, 9]),     # final point on sequence
    ('R2//P2', '9', '9', [9]),
    ('R3/P2/+P2', '0', '6', [4, 6]),         # 4,6,8 clipped at 6
]:
    seq = IntegerSequence(expr, a, b)
    got = [i for i in range(-2, 30) if seq.is_valid(IntegerPoint(str(i)))]
    stop = seq.get_stop_point()
    ok = got == want and stop is not None and int(stop) == want[-1]
    bad += not ok
    print(f'IntegerSequence({expr!r}, {a!r}, {b!r}): expected points {want} '
          f'stop {want[-1]}; got points {got} stop {stop}',
          'OK' if ok else '<-- WRONG')
print('DEFECT REPRODUCED' if bad else 'not reproduced')
