"""C16: clipping a recurrence to the initial cycle point lands off-sequence.

IntegerSequence.__init__, "start from first point >= context start":
    remainder = (p_context_start - p_start) % step
    p_start = p_context_start + remainder
The first on-sequence point >= context start is
    p_context_start + ((p_start - p_context_start) % step)
(the remainder has the wrong sign), so whenever the initial cycle point is
not itself on the progression (and 2*remainder != step) the whole sequence is
shifted onto points that are not START + i*INTV.
"""
from cylc.flow.cycling.integer import IntegerSequence, IntegerPoint


def pts(expr, a, b):
    seq = IntegerSequence(expr, a, b)
    return [i for i in range(-2, 30) if seq.is_valid(IntegerPoint(str(i)))]


bad = 0
for expr, a, b, want in [
    ('2/P3', '6', '20', [8, 11, 14, 17, 20]),     # 2,5,8,... from 6 on
    ('R3/P3', '0', '4', [1, 4]),                  # 4,1,(-2) clipped at 0
    ('R4/P4/9', '0', '9', [1, 5, 9]),             # 9,5,1,(-3)
    ('P1!0/P3', '1', '4', [1, 2, 4]),             # exclusion sequence 0,3,6..
]:
    got = pts(expr, a, b)
    ok = got == want
    bad += not ok
    print(f'IntegerSequence({expr!r}, {a!r}, {b!r}): expected {want}, got '
          f'{got}', 'OK' if ok else '<-- WRONG')
print('DEFECT REPRODUCED' if bad else 'not reproduced')
