"""C20: a job already launched is launched again under the same submit number after a crash.

proc_pool.process() launches `cylc jobs-submit` at the top of a main-loop
iteration; the task is recorded as `submitted` only when the command's
callback has run and the end-of-iteration commit has been written (at least
one iteration later).  The database meanwhile says `preparing`.  A scheduler
killed in that window restarts, load_db_task_pool_for_restart() turns
`preparing` into `waiting` with submit_num - 1 ("re-prepare same submit"), and
the job is submitted a second time under the same submit number while the
first one is running: two jobs share one job directory / job id slot; the
first job is never polled (the scheduler does not know it exists), messages it
sent while the scheduler was down are lost, and the task completes on whichever
"succeeded" arrives first.
Contradicts C20: "no job is launched twice under the same submit number".

How to run:  PYTHONPATH=/verif:/repo /venv/bin/python findings/C20_relaunch_same_submit_after_crash.py

This reproduction drives the REAL cylc Scheduler with the stepped-scheduler
harness of the verification framework (vf.sim engine + vf/props/c20.py): a
plain script is impractical because the scheduler has to be killed at one
exact database statement / main-loop position.  Every scheduler incarnation
below runs in its own forked child process and "killed" means
os._exit(137) in that child (no shutdown code, no commit, open transaction
abandoned); jobs are scripted on a virtual cluster; the next incarnation is a
new Scheduler object in a new process on the same run directory.
Candidate minimal fix: record the submission attempt durably before launching (e.g. commit a `submitting` marker / the task_jobs row and treat a `preparing` task that has a task_jobs row for its submit number as possibly-submitted on restart: poll it first, re-prepare only if the poll finds no job).
"""
import json
import os
import sys

sys.path[:0] = [os.environ.get('VF_ROOT', '/verif'),
                os.environ.get('VF_REPO', '/repo')]
import vf.props.c20 as c20  # noqa: E402

# kills = [[class index into c20.KILL_CLASSES, n-th point of that class,
#           effect number of a second kill in the restarted scheduler (0 =
#           none), job progress while down (0 none / 1 one step / 2 to end)]]
CASE = json.loads(r'''{"spec": {"mode": "integer", "icp": 1, "fcp": 1, "retries": {}, "extra": {}, "custom": {}, "tasks": ["a"], "opt": {"a": {"succ": false, "submit": false, "fail_required": false, "custom": {}}}, "sections": [{"rec": {"kind": "R1", "at": 1, "form": 0}, "lines": [{"lhs": null, "rhs": ["a"]}]}]}, "outcomes": {}, "ret_delays": [], "kills": [[3, 0, 0, 0]]}''')

if __name__ == '__main__':
    res = c20.explain(CASE)
    want = 'C20:job-launched-twice-under-same-submit-number:killed-between-launch-and-commit-of-submitted'
    ok = any(v.sig == want for v in res.violations)
    print()
    print('REPRODUCED' if ok else 'NOT REPRODUCED', want)
    sys.exit(0 if ok else 1)
