"""C29 finding: `cylc set <task>` with no options does not complete
submitted / started / succeeded when the task has a required output next to
an optional success.

    [scheduling][[graph]]  R1 = "a? => b \n a:x => c"
    [runtime][[a]]  completion = x and (succeeded or failed)
                    [[[outputs]]] x = "the x"

`cylc set --help`: "By default this command completes required outputs,
plus the "submitted", "started", and "succeeded" outputs even if they are
optional."  (statement C29: "with no outputs given it completes the task's
required outputs plus submitted, started and succeeded".)

Actual: only `x` is completed; 1/a stays waiting (it will still run), 1/b is
not spawned.  With the graph-derived default completion
"(x and succeeded) or failed" the same command completes submitted, started,
x and succeeded - so the result depends on how the completion expression
is written.

Cause (cylc/flow/task_pool.py, _set_outputs_itask):
    outputs = set(itask.state.outputs.iter_required_messages()) or (
        get_skip_mode_outputs(itask))
The success-pathway set is only a fallback for "no required outputs"; when
any output is required (here x) the success pathway is dropped although
succeeded is optional.  Candidate fix: always take get_skip_mode_outputs()
(required outputs + submitted/started + succeeded) for the default.

Drives the real Scheduler through the /verif stepped engine (start-up only;
no job runs).  Run:
    cd /verif && PYTHONPATH=/verif:/repo /venv/bin/python \
        findings/C29_default_set_skips_success_pathway.py
"""
import os
import shutil
import sys
import tempfile

scr = tempfile.mkdtemp(prefix='vf-finding-')
os.environ['HOME'] = scr + '/home'
os.makedirs(os.environ['HOME'])
os.environ['CYLC_CONF_PATH'] = scr + '/conf'
os.chdir(scr)
sys.path[:0] = [os.path.dirname(os.path.dirname(os.path.abspath(__file__))),
                os.environ.get('VF_REPO', '/repo')]

from vf import core  # noqa: E402
from vf.sim.drive import SCase, run_async  # noqa: E402

FLOW = '''
[scheduler]
    allow implicit tasks = True
[scheduling]
    cycling mode = integer
    initial cycle point = 1
    final cycle point = 1
    [[graph]]
        R1 = """
            a? => b
            a:x => c
        """
[runtime]
    [[root]]
        script = true
    [[a]]
%s
        [[[outputs]]]
            x = "the x"
'''
SPEC = {'mode': 'integer', 'icp': 1, 'fcp': 1, 'tasks': ['a', 'b', 'c'],
        'custom': {'a': {'x': 'the x'}}, 'opt': {}, 'retries': {},
        'extra': {}, 'sections': []}


async def run(completion_line):
    from cylc.flow import commands
    ctx = core.Ctx('C29', 'quick', 1, 0, 1, scr, core.Collector('C29'))
    case = {'spec': SPEC, 'outcomes': {}, 'schedule': []}
    async with SCase(case, ctx, flow_text=FLOW % completion_line) as sc:
        assert not sc.rejected, sc.rejected
        schd = sc.sim.schd
        a = schd.pool._get_task_by_id('1/a')
        print('completion expression:', a.state.outputs._completion_expression)
        await commands.run_cmd(commands.set_prereqs_and_outputs(
            schd, ['1/a'], [], outputs=None, prerequisites=None))
        a = schd.pool._get_task_by_id('1/a')
        outs = (sorted(a.state.outputs.get_completed_outputs())
                if a is not None else '(completed and removed)')
        print('   after `cylc set 1/a`: 1/a',
              a.state.status if a is not None else 'gone', 'outputs', outs,
              '; pool', sorted(t.identity for t in schd.pool.get_tasks()))
        return a, outs


async def main():
    _a, _o = await run('')
    a, outs = await run(
        '        completion = x and (succeeded or failed)')
    bad = a is not None and 'succeeded' not in outs and 'x' in outs
    print('DEFECT REPRODUCED: default `cylc set` completed only the required '
          'custom output' if bad else 'not reproduced')
    return bad


try:
    ok = run_async(main())
finally:
    shutil.rmtree(scr, ignore_errors=True)
sys.exit(0 if ok else 1)
